#!/bin/sh
# Offline setup: nothing to build (pure Python harness, standard library + the repository's own dependencies in /venv).
set -e
cd "$(dirname "$0")"
mkdir -p evidence replays
chmod +x vcheck tools/*.py 2>/dev/null || true
/venv/bin/python -c "import experimaestro, sys; print('experimaestro importable from', experimaestro.__file__)"
