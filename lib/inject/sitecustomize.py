"""Engine K – crash-point injector for child processes (placed first on the victim's PYTHONPATH only).

  VERIF_CRASH        "<n>:<SIGNAME>:<logfile>"   kill this process with SIGNAME at the n-th counted line event
                                                 (n = 0: never; only log the crash points to <logfile>)
  VERIF_CRASH2       "<m>:<SIGNAME>"  second fault in the same process, m counted line events after the first
  VERIF_CRASH_FILES  comma separated file-name suffixes whose executed lines are counted
                     (default experimaestro/run.py)
  VERIF_CRASH_QUAL   optional comma separated qualname substrings: only lines of matching functions are counted
  VERIF_CRASH_ARM    "<qualname substring>" of the function at whose first line counting starts
                     (default "TaskRunner.run"; "*" = from interpreter start)
  VERIF_RUNNER_LOG   append "runner <script> <pid>" when this interpreter was started on a job script
  VERIF_DELAY        "<seed>:<probability>:<max milliseconds>[:<countfile>]"  preemption injection: at line events
                     of VERIF_DELAY_FILES (default tokens.py, locking.py, ipc.py, connectors/local.py) the running
                     thread sleeps up to <max ms> with the given probability - what an operating system may do to any
                     thread between two statements; the number of injected delays is appended to <countfile> at exit
  VERIF_DELAY_AT     "<file suffix>::<source line, stripped>::<milliseconds>[;;...]"  directed preemption: every time a
                     thread is about to execute that statement it sleeps first (source text, not line numbers, so that
                     the directive survives edits of the file)
  VERIF_CERT         path prefix: a reporter thread periodically writes a quiescence certificate
                     (<prefix>.<pid>.json) of a scheduler process

Only statement-start lines fire (sys.monitoring LINE): crash points are statement boundaries of Python code.
"""
import os
import sys

_spec = os.environ.get("VERIF_CRASH")
_rlog = os.environ.get("VERIF_RUNNER_LOG")


def _append(path, line):
    fd = os.open(path, os.O_WRONLY | os.O_APPEND | os.O_CREAT, 0o644)
    try:
        os.write(fd, (line + "\n").encode())
    finally:
        os.close(fd)


if _rlog:
    try:
        _argv = getattr(sys, "orig_argv", None) or sys.argv
        _script = next((a for a in _argv[1:] if a.endswith(".py")), None)
        if _script and os.path.isfile(os.path.join(os.path.dirname(os.path.abspath(_script)), "params.json")):
            _append(_rlog, f"runner {os.path.abspath(_script)} {os.getpid()}")
    except Exception:
        pass

if _spec and hasattr(sys, "monitoring"):
    import signal

    _n, _signame, _logpath = _spec.split(":", 2)
    _target = int(_n)
    _files = tuple(os.environ.get("VERIF_CRASH_FILES", "experimaestro/run.py").split(","))
    _arm = os.environ.get("VERIF_CRASH_ARM", "TaskRunner.run")
    _qual = tuple(q for q in os.environ.get("VERIF_CRASH_QUAL", "").split(",") if q)
    _mon = sys.monitoring
    _TOOL = 3
    try:
        _mon.use_tool_id(_TOOL, "verif-crash")
    except ValueError:
        _TOOL = 4
        _mon.use_tool_id(_TOOL, "verif-crash")
    _state = {"n": 0, "armed": _arm == "*", "pid": os.getpid()}
    _second = os.environ.get("VERIF_CRASH2")
    _second = (int(_second.split(":")[0]), _second.split(":")[1]) if _second else None

    def _on_line(code, line):
        fn = code.co_filename
        if not fn.endswith(_files):
            return _mon.DISABLE
        if _qual and not any(q in code.co_qualname for q in _qual):
            return _mon.DISABLE
        if os.getpid() != _state["pid"]:
            return None  # a forked child is not the victim
        if not _state["armed"]:
            if _arm in code.co_qualname:
                _state["armed"] = True
            else:
                return None
        _state["n"] += 1
        if _logpath:
            _append(_logpath, f"{_state['n']} {os.path.basename(fn)}:{line} {code.co_qualname}")
        if _state["n"] == _target:
            if _second:
                _state["second"] = _state["n"] + _second[0]
            os.kill(os.getpid(), getattr(signal, _signame))
        elif _state.get("second") == _state["n"]:
            # VERIF_CRASH2: a second fault in the same process, m counted line events after the first one (e.g. SIGKILL
            # while the handler of a termination signal is still cleaning up)
            os.kill(os.getpid(), getattr(signal, _second[1]))

    _mon.register_callback(_TOOL, _mon.events.LINE, _on_line)
    _mon.set_events(_TOOL, _mon.events.LINE)

_delay = os.environ.get("VERIF_DELAY")
if _delay and hasattr(sys, "monitoring"):
    import atexit
    import random as _random
    import time as _time

    _dparts = _delay.split(":")
    _drng = _random.Random(int(_dparts[0]) ^ os.getpid())
    _dprob = float(_dparts[1])
    _dmax = float(_dparts[2]) / 1000.0
    _dcount = _dparts[3] if len(_dparts) > 3 else None
    _dfiles = tuple(os.environ.get("VERIF_DELAY_FILES", "experimaestro/tokens.py,experimaestro/locking.py,experimaestro/ipc.py,experimaestro/connectors/local.py").split(","))
    _dmon = sys.monitoring
    _DTOOL = 5
    _dstate = {"n": 0, "lines": 0}
    try:
        _dmon.use_tool_id(_DTOOL, "verif-delay")

        def _on_dline(code, line):
            if not code.co_filename.endswith(_dfiles):
                return _dmon.DISABLE
            _dstate["lines"] += 1
            if _drng.random() < _dprob:
                _dstate["n"] += 1
                _time.sleep(_drng.random() * _dmax)

        _dmon.register_callback(_DTOOL, _dmon.events.LINE, _on_dline)
        _dmon.set_events(_DTOOL, _dmon.events.LINE)
        if _dcount:
            atexit.register(lambda: _append(_dcount, f"{os.getpid()} {_dstate['n']} {_dstate['lines']}"))
    except ValueError:
        pass

_delay_at = os.environ.get("VERIF_DELAY_AT")
if _delay_at and hasattr(sys, "monitoring"):
    import linecache as _linecache
    import time as _time2

    _at = []
    for _d in _delay_at.split(";;"):
        _suffix, _text, _ms = _d.split("::")
        _at.append((_suffix, _text.strip(), float(_ms) / 1000.0))
    _amon = sys.monitoring
    _ATOOL = 2
    _acache = {}

    def _lines_for(filename):
        if filename not in _acache:
            found = {}
            for suffix, text, secs in _at:
                if filename.endswith(suffix):
                    for i, l in enumerate(_linecache.getlines(filename), 1):
                        if l.strip() == text:
                            found[i] = secs
            _acache[filename] = found
        return _acache[filename]

    try:
        _amon.use_tool_id(_ATOOL, "verif-delay-at")

        def _on_aline(code, line):
            found = _lines_for(code.co_filename)
            if not found:
                return _amon.DISABLE
            secs = found.get(line)
            if secs is None:
                return _amon.DISABLE
            _time2.sleep(secs)

        _amon.register_callback(_ATOOL, _amon.events.LINE, _on_aline)
        _amon.set_events(_ATOOL, _amon.events.LINE)
    except ValueError:
        pass

_cert = os.environ.get("VERIF_CERT")
if _cert:
    import threading

    def _reporter():
        import json
        import time

        while True:
            time.sleep(0.2)
            try:
                # never import here: importing from a second thread while the main thread is still importing the
                # package makes the main thread see half-initialised modules
                mod = sys.modules.get("experimaestro.scheduler.base")
                experiment = getattr(mod, "experiment", None)
                if experiment is None:
                    continue
                xp = experiment.CURRENT
                info = {"pid": os.getpid(), "t": time.time(), "xp": xp is not None}
                if xp is not None and getattr(xp, "central", None) is not None:
                    loop = xp.central.loop
                    info["ready"] = len(loop._ready)
                    info["unfinished"] = xp.unfinishedJobs
                    info["jobs"] = {k: j.state.name for k, j in list(xp.scheduler.jobs.items())}
                    info["threads"] = sorted(t.name for t in threading.enumerate())
                tmp = f"{_cert}.{os.getpid()}.tmp"
                with open(tmp, "w") as f:
                    json.dump(info, f)
                os.replace(tmp, f"{_cert}.{os.getpid()}.json")
            except Exception:
                pass

    threading.Thread(target=_reporter, name="verif-reporter", daemon=True).start()
