"""Engine B – controlled in-process scheduler.

The *real* experiment / Scheduler / Job / Dependency / Locks / CounterToken / CommandLineJob code runs
in-process; only operating-system facts are simulated and every external event is delivered by a seeded
driver at quiescent points of the scheduler's event loop:

  * helper threads (asyncThreadcheck: job-lock enter/exit, process.wait(), done_handler; TokenFile.watch)
    are ControlledThreads: start() registers a pending event, the driver runs the body later;
  * the cross-thread wake-up (loop.call_soon_threadsafe issued by a controlled body) can be split off as
    its own pending event;
  * job processes are SimProcesses: selecting the waiter *is* the process exit (markers written then);
  * filesystem notifications come from a fake observer: the driver diffs the watched directories after
    each step and queues created/modified/deleted events per handler (FIFO);
  * a foreign agent (a second real CounterToken object on the same directory) models another process.

Inside the loop asyncio stays FIFO: the engine never reorders the loop's own queue.
Nothing in /repo is modified: all hooks are attached from here.
"""
import asyncio
import json
import os
import random
import shutil
import threading
import time
from pathlib import Path

_INSTALLED = False
ENGINE = None  # the run in progress


class WouldBlock(Exception):
    """A controlled body tried to wait for a simulated process that has not exited yet."""

    def __init__(self, pid):
        self.pid = pid


class Pending:
    __slots__ = ("kind", "label", "fn", "blocked_on", "seq")

    def __init__(self, kind, label, fn, seq):
        self.kind = kind
        self.label = label
        self.fn = fn
        self.blocked_on = None
        self.seq = seq


class ControlledThread:
    """Replacement for threading.Thread in experimaestro.utils.asyncio and experimaestro.tokens."""

    def __init__(self, group=None, target=None, name=None, args=(), kwargs=None, daemon=None):
        self.name = name or getattr(target, "__name__", "thread")
        self.target = target
        self.args = args
        self.kwargs = kwargs or {}

    def start(self):
        eng = ENGINE
        if eng is None:
            # outside a controlled run: behave like a normal thread
            threading.Thread(target=self.target, args=self.args, kwargs=self.kwargs, daemon=True).start()
            return
        body = lambda: self.target(*self.args, **self.kwargs)  # noqa: E731
        if eng.p_eager and eng.eager_rng.random() < eng.p_eager:
            # the new thread is scheduled at once and runs to completion before its creator continues
            # (e.g. a stale-token reclaim finishing inside CounterToken.__init__)
            try:
                eng.events.append(("eager-thread", self.name, eng.step))
                body()
                return
            except WouldBlock:
                pass
        eng.add_pending("thread", self.name, body)

    def join(self, timeout=None):
        pass

    def is_alive(self):
        return False


class _ThreadingShim:
    """`threading` as seen by experimaestro.tokens: Thread is controlled, the rest is real."""

    Thread = ControlledThread

    def __getattr__(self, k):
        return getattr(threading, k)


class FakeWatch:
    def __init__(self, handler, path):
        self.handler = handler
        self.path = Path(path)
        self.snapshot = {}
        self.queue = []
        self.active = True


class FakeIPCom:
    """Stands for the watchdog observer: records handlers, the driver delivers the events."""

    def __init__(self):
        self.pid = os.getpid()
        self.watches = []
        self.dead = False  # the observer thread died (an exception escaped a handler)

    def fswatch(self, watcher, path, recursive=False):
        w = FakeWatch(watcher, path)
        w.snapshot = self._scan(w.path)
        self.watches.append(w)
        return w

    def fsunwatch(self, watch):
        for w in self.watches:
            if w is watch or w.handler is watch:
                w.active = False

    @staticmethod
    def _scan(path):
        res = {}
        try:
            for p in path.iterdir():
                if p.is_file():
                    st = p.stat()
                    res[str(p)] = (st.st_mtime_ns, st.st_size, st.st_ino)
        except FileNotFoundError:
            pass
        return res

    def diff(self):
        """Queue the events that happened since the last scan (per watch, in FIFO order)."""
        from watchdog.events import FileCreatedEvent, FileDeletedEvent, FileModifiedEvent

        n = 0
        for w in self.watches:
            if not w.active:
                continue
            new = self._scan(w.path)
            for p in sorted(set(w.snapshot) - set(new)):
                w.queue.append(FileDeletedEvent(p))
                n += 1
            for p in sorted(set(new) - set(w.snapshot)):
                w.queue.append(FileCreatedEvent(p))
                if new[p][1] > 0:
                    w.queue.append(FileModifiedEvent(p))
                n += 1
            for p in sorted(set(new) & set(w.snapshot)):
                if new[p] != w.snapshot[p]:
                    if new[p][2] != w.snapshot[p][2]:
                        w.queue.append(FileDeletedEvent(p))
                        w.queue.append(FileCreatedEvent(p))
                    w.queue.append(FileModifiedEvent(p))
                    n += 1
            w.snapshot = new
        return n


class SimProcess:
    """A simulated job process.  Created by SimProcessBuilder.start (a launch event)."""

    def __init__(self, eng, pid, jobdir, name, code, jobkey, attempt):
        self.eng = eng
        self.pid = pid
        self.jobdir = Path(jobdir)
        self.name = name
        self.code = code
        self.jobkey = jobkey
        self.attempt = attempt
        self.exited = False
        self.owned = True  # child of this scheduler

    def tospec(self):
        return {"type": "sim", "pid": self.pid}

    def do_exit(self):
        """The task runner's observable effect on the job directory at process end."""
        if self.exited:
            return
        self.exited = True
        if self.code == 0:
            # a body may end the process with status 0 without going through the runner (os._exit(0), a foreign launcher
            # script): plans mark such jobs "nomarker"; the exit status alone says DONE (C06)
            if not (self.owned and self.jobkey in getattr(self.eng, "nomarker", ())):
                (self.jobdir / f"{self.name}.done").touch()
        else:
            (self.jobdir / f"{self.name}.failed").write_text(str(self.code))
        pidf = self.jobdir / f"{self.name}.pid"
        if pidf.is_file():
            try:
                if json.loads(pidf.read_text()).get("pid") == self.pid:
                    pidf.unlink()
            except Exception:
                pass
        self.eng.on_exit(self)

    def wait(self):
        if self.owned:
            # selecting the waiter of a child process *is* the process exit
            self.do_exit()
            return self.code
        if not self.exited:
            raise WouldBlock(self.pid)
        return None  # a re-attached (non-child) process has no exit status, as with psutil

    async def aio_state(self):
        from experimaestro.connectors import ProcessState

        return ProcessState.FINISHED if self.exited else ProcessState.RUNNING

    async def aio_isrunning(self):
        return not self.exited

    async def aio_code(self):
        from experimaestro.utils.asyncio import asyncThreadcheck

        return await asyncThreadcheck("aio_code", self.wait)

    def kill(self):
        self.code = -9
        self.do_exit()

    def __repr__(self):
        return f"SimProcess({self.pid}, job={self.jobkey})"


class AdoptedView:
    """What another scheduler (or a watcher) gets when it re-attaches to a live simulated process."""

    def __init__(self, proc):
        self.proc = proc
        self.pid = proc.pid

    def wait(self):
        if not self.proc.exited:
            raise WouldBlock(self.proc.pid)
        return None

    async def aio_state(self):
        return await self.proc.aio_state()

    async def aio_isrunning(self):
        return not self.proc.exited

    async def aio_code(self):
        from experimaestro.utils.asyncio import asyncThreadcheck

        return await asyncThreadcheck("aio_code", self.wait)

    def tospec(self):
        return self.proc.tospec()


class SimHandler:
    """Process.HANDLERS['sim']"""

    @staticmethod
    def fromspec(connector, spec):
        eng = ENGINE
        if eng is None:
            return None
        p = eng.procs.get(spec["pid"])
        if p is None or p.exited:
            return None
        return AdoptedView(p)


def install():
    """Attach the harness hooks to the experimaestro modules (once per process)."""
    global _INSTALLED
    if _INSTALLED:
        return
    import experimaestro.ipc as xipc
    import experimaestro.tokens as xtokens
    import experimaestro.utils.asyncio as xasync
    from experimaestro.connectors import Process
    from experimaestro.scheduler.base import Job

    xasync.Thread = ControlledThread
    xtokens.threading = _ThreadingShim()
    Process.handler("local")  # populate the handler table
    Process.HANDLERS["sim"] = SimHandler

    # Job.state becomes a logging data descriptor
    def _get(self):
        return self.__dict__.get("_xv_state")

    def _set(self, v):
        old = self.__dict__.get("_xv_state")
        self.__dict__["_xv_state"] = v
        eng = ENGINE
        if eng is not None:
            eng.on_state(self, old, v)

    Job.state = property(_get, _set)
    xipc.IPCom.INSTANCE = None
    _INSTALLED = True


def make_launcher(eng, workdir):
    from experimaestro.connectors import ProcessBuilder
    from experimaestro.connectors.local import LocalConnector
    from experimaestro.launchers.direct import DirectLauncher

    class SimProcessBuilder(ProcessBuilder):
        def start(self, task_mode=False):
            script = Path(self.command[-1])
            return eng.on_launch(script)

    class SimLauncher(DirectLauncher):
        def processbuilder(self):
            return SimProcessBuilder()

    return SimLauncher(LocalConnector(Path(workdir) / "connector"))


class Engine:
    def __init__(self, seed, workdir, decisions=None, split_posts=True):
        self.rng = random.Random(seed)
        self.eager_rng = random.Random(seed * 7919 + 13)  # separate stream: replays follow recorded choices, not the rng
        self.p_eager = float(os.environ.get("VERIF_EAGER", "0.08"))
        self.seed = seed
        self.workdir = Path(workdir)
        self.decisions = list(decisions) if decisions is not None else None  # replay: labels to follow
        self.split_posts = split_posts
        self.pending = []
        self.plock = threading.Lock()
        self.seq = 0
        self.trace = []
        self.step = 0
        self.procs = {}
        self.next_pid = 700000
        self.events = []  # ("launch"|"exit"|..., ...)
        self.state_writes = []
        self.samples = []  # job states at quiescent points
        self.violations = []  # (property, mechanism, message)
        self.jobs = {}  # key -> list of Job objects (attempts)
        self.jobdir2key = {}
        self.codes = {}  # key -> list of exit codes per launch
        self.nomarker = set()  # keys of jobs whose process exits 0 without writing the success marker
        self.launch_count = {}
        self.hooks = []  # monitors: objects with on_launch/on_exit/...
        self.in_body = threading.local()
        self.watchdog = float(os.environ.get("VERIF_QUIESCE_WATCHDOG", "20"))
        self.inconclusive = None
        self.ipcom = None
        self.loop = None
        self.xp = None

    # ---- pending events
    def add_pending(self, kind, label, fn):
        with self.plock:
            self.seq += 1
            self.pending.append(Pending(kind, label, fn, self.seq))

    def violation(self, prop, mechanism, message):
        self.violations.append({"properties": [prop] if isinstance(prop, str) else list(prop), "mechanism": mechanism, "message": message, "step": self.step})

    # ---- callbacks from the simulated world
    def on_launch(self, script):
        jobdir = script.parent
        key = self.jobdir2key.get(str(jobdir))
        name = script.stem
        n = self.launch_count.get(key, 0)
        self.launch_count[key] = n + 1
        codes = self.codes.get(key, [0])
        code = codes[min(n, len(codes) - 1)]
        self.next_pid += 1
        p = SimProcess(self, self.next_pid, jobdir, name, code, key, n)
        self.procs[p.pid] = p
        self.events.append(("launch", key, self.step, n))
        for h in self.hooks:
            h.on_launch(self, key, p)
        return p

    def on_exit(self, proc):
        if not proc.jobkey.startswith("j"):
            return  # a foreign scheduler's job
        self.events.append(("exit", proc.jobkey, self.step, proc.code))
        for h in self.hooks:
            h.on_exit(self, proc.jobkey, proc)

    def on_state(self, job, old, new):
        key = getattr(job, "_xv_key", None) or getattr(getattr(job, "config", None), "_xv_key", None)
        self.state_writes.append((self.step, key, old.name if old else None, new.name if new else None))

    # ---- loop control
    def quiesce(self):
        loop = self.loop
        ev = threading.Event()
        spins = [0]

        def probe():
            if loop._ready:
                spins[0] += 1
                loop.call_soon(probe)
            else:
                ev.set()

        loop.call_soon_threadsafe(probe)
        if not ev.wait(self.watchdog):
            self.inconclusive = "quiescence watchdog fired"
            raise TimeoutError("quiescence watchdog")

    def run_body(self, p):
        """Run a pending event in the driver thread (not the loop thread, as in reality)."""
        self.in_body.active = True
        self.in_body.split = self.split_posts and self.eager_rng.random() < 0.5  # auxiliary stream: identical in replays
        try:
            p.fn()
        except WouldBlock as wb:
            p.blocked_on = wb.pid
            with self.plock:
                self.pending.append(p)
        finally:
            self.in_body.active = False

    def wrap_loop(self, loop):
        """Cross-thread posts issued by a controlled body may become events of their own."""
        eng = self
        orig = loop.call_soon_threadsafe

        def call_soon_threadsafe(cb, *args, context=None):
            if getattr(eng.in_body, "active", False) and getattr(eng.in_body, "split", False):
                label = getattr(cb, "__qualname__", getattr(cb, "__name__", "cb"))
                eng.add_pending("post", label, lambda: orig(cb, *args))
                return None
            return orig(cb, *args)

        loop.call_soon_threadsafe = call_soon_threadsafe
        self._orig_cst = orig

    # ---- choices
    def enabled(self):
        res = []
        with self.plock:
            for i, p in enumerate(self.pending):
                if p.blocked_on is not None:
                    proc = self.procs.get(p.blocked_on)
                    if proc is not None and not proc.exited:
                        continue
                res.append(("pending", p.seq, f"{p.kind}:{p.label}#{p.seq}"))
        if self.ipcom is not None and not self.ipcom.dead:
            for wi, w in enumerate(self.ipcom.watches):
                if w.active and w.queue:
                    res.append(("fs", wi, f"fs:{wi}:{type(w.queue[0]).__name__}:{Path(w.queue[0].src_path).name}"))
        return res

    def deliver(self, choice):
        kind, ref, label = choice
        if kind == "pending":
            with self.plock:
                p = next(x for x in self.pending if x.seq == ref)
                self.pending.remove(p)
            p.blocked_on = None
            self.run_body(p)
        elif kind == "fs":
            w = self.ipcom.watches[ref]
            ev = w.queue.pop(0)
            try:
                w.handler.dispatch(ev)
            except Exception as e:  # in watchdog this kills the observer thread for good
                self.ipcom.dead = True
                self.events.append(("observer-died", repr(e)[:200], self.step))
                for h in self.hooks:
                    h.on_observer_died(self, e)

    def choose(self, choices):
        """Seeded choice, or the recorded decision when replaying."""
        if self.decisions is not None:
            if not self.decisions:
                return None
            want = self.decisions.pop(0)
            for c in choices:
                if c[2] == want:
                    return c
            self.inconclusive = f"replay diverged at step {self.step}: {want} not enabled"
            return None
        return self.rng.choice(choices)
