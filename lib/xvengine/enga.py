"""Engine A – harness side: real scheduler processes, real job processes, offline history checking.

Histories are judged on the *order* of the task-side append-only log (every line is one write(2) on an
O_APPEND descriptor, hence atomic and totally ordered), never on timestamps."""
import json
import os
import signal
import subprocess
import time
from pathlib import Path

from xvcore import PYTHON, REPO, VERIF

INJECT = str(VERIF / "lib" / "inject")
SCHED = str(VERIF / "lib" / "xvengine" / "enga_sched.py")


class Case:
    """One workspace shared by one or several scheduler processes."""

    def __init__(self, base: Path):
        self.base = Path(base)
        self.base.mkdir(parents=True, exist_ok=True)
        self.ws = self.base / "ws"
        self.local = self.base / "local"  # connector directory: file tokens live here
        self.log = self.base / "body.log"
        self.runners = self.base / "runners.log"
        self.go = self.base / "go"
        self.go.mkdir(exist_ok=True)
        self.procs = []
        self.n = 0

    def job_env(self, go=True, extra=None):
        env = {
            "PYTHONPATH": f"{INJECT}:{REPO}/src:{VERIF}/lib",
            "XV_LOG": str(self.log),
            "VERIF_RUNNER_LOG": str(self.runners),
            "PYTHONDONTWRITEBYTECODE": "1",
            "HOME": os.environ.get("HOME", "/tmp"),
        }
        if go:
            env["XV_GO"] = str(self.go)
        if extra:
            env.update(extra)
        return env

    def start(self, plan, crash=None, cert=False, extra_env=None):
        """Start one scheduler process on `plan` (in its own session so that exactly it can be signalled)."""
        self.n += 1
        tag = f"s{self.n}"
        pj = self.base / f"{tag}.plan.json"
        pj.write_text(json.dumps(plan))
        res = self.base / f"{tag}.result.json"
        env = {
            "PATH": os.environ.get("PATH", ""),
            "HOME": os.environ.get("HOME", "/tmp"),
            "PYTHONPATH": f"{INJECT}:{REPO}/src:{VERIF}/lib",
            "PYTHONDONTWRITEBYTECODE": "1",
            "XPM_WORKDIR": str(self.local),
            "PYTHONHASHSEED": "0",
        }
        if crash:
            env.update(crash)
        if cert:
            env["VERIF_CERT"] = str(self.base / f"{tag}.cert")
        if extra_env:
            env.update(extra_env)
        err = open(self.base / f"{tag}.err", "w")
        p = subprocess.Popen([PYTHON, "-X", "faulthandler", SCHED, str(pj), str(self.ws), str(res)], env=env, stdout=subprocess.DEVNULL, stderr=err, start_new_session=True, cwd="/")
        err.close()
        h = {"proc": p, "tag": tag, "result": res, "progress": Path(str(res) + ".progress"), "cert": self.base / f"{tag}.cert.{p.pid}.json"}
        self.procs.append(h)
        return h

    @staticmethod
    def progress(h):
        return h["progress"].read_text().splitlines() if h["progress"].is_file() else []

    def wait_progress(self, h, word, timeout):
        t0 = time.time()
        while time.time() - t0 < timeout:
            if any(l.startswith(word) for l in self.progress(h)):
                return True
            if h["proc"].poll() is not None:
                return any(l.startswith(word) for l in self.progress(h))
            time.sleep(0.02)
        return False

    def wait_exit(self, h, timeout):
        try:
            h["proc"].wait(timeout)
            return True
        except subprocess.TimeoutExpired:
            return False

    def result(self, h):
        return json.loads(h["result"].read_text()) if h["result"].is_file() else None

    def release(self, name="goall"):
        (self.go / name).touch()

    def body_log(self):
        return self.log.read_text().splitlines() if self.log.is_file() else []

    def runner_log(self):
        return self.runners.read_text().splitlines() if self.runners.is_file() else []

    def job_pids(self):
        pids = set()
        for l in self.runner_log():
            parts = l.split()
            if len(parts) >= 3 and parts[0] == "runner":
                pids.add(int(parts[-1]))
        for p in self.ws.glob("jobs/*/*/*.pid"):
            try:
                pids.add(int(json.loads(p.read_text())["pid"]))
            except Exception:
                pass
        return pids

    def alive(self, pid):
        try:
            os.kill(pid, 0)
        except ProcessLookupError:
            return False
        except PermissionError:
            return True
        try:
            with open(f"/proc/{pid}/stat") as f:
                return f.read().split(")")[-1].split()[0] != "Z"
        except Exception:
            return False

    def token_files(self):
        return sorted(str(p.name) for p in self.local.glob("tokens/*/*.token"))

    def certificates(self, h):
        try:
            return json.loads(h["cert"].read_text())
        except Exception:
            return None

    def cleanup(self):
        """Kill what is left: scheduler processes by pid, job processes by the pids they recorded (never pkill -f)."""
        self.release()
        for h in self.procs:
            if h["proc"].poll() is None:
                try:
                    os.kill(h["proc"].pid, signal.SIGKILL)
                except Exception:
                    pass
                try:
                    h["proc"].wait(5)
                except Exception:
                    pass
        for pid in self.job_pids():
            if self.alive(pid):
                try:
                    os.kill(pid, signal.SIGKILL)
                except Exception:
                    pass


def parse_body(lines):
    """[(kind, x, pid, ok)] in log order."""
    ev = []
    for l in lines:
        p = l.split()
        if len(p) >= 3 and p[0] in ("start", "end"):
            ev.append((p[0], int(p[1]), int(p[2]), (p[3] == "ok") if len(p) > 3 else None))
    return ev


def exactly_once(events, xs):
    """Per job: number of start records, overlaps, start after a successful end."""
    problems = []
    for x in xs:
        starts = [i for i, e in enumerate(events) if e[0] == "start" and e[1] == x]
        ends_ok = [i for i, e in enumerate(events) if e[0] == "end" and e[1] == x and e[3]]
        open_ = 0
        for e in events:
            if e[1] != x:
                continue
            if e[0] == "start":
                open_ += 1
                if open_ > 1:
                    problems.append((x, "two bodies of the same job ran at the same time"))
            else:
                open_ -= 1
        if ends_ok and any(s > ends_ok[0] for s in starts):
            problems.append((x, "the body ran again after it had succeeded"))
        if len(starts) != 1:
            problems.append((x, f"{len(starts)} start records"))
    return problems


def quiescent_hang(case, h, rounds=5):
    """Decide a time-out on quiescence certificates, never on the clock alone: the scheduler's loop is idle over
    several certificates, its job states do not move, no job process of the workspace is alive, no token file
    exists - and yet a job is not final.  Returns a description, or None (= inconclusive)."""
    import time as _t

    certs = []
    for _ in range(rounds):
        c = case.certificates(h)
        if c:
            certs.append(c)
        _t.sleep(0.3)
    if len(certs) < rounds - 1:
        return None
    same = all(c.get("jobs") == certs[0].get("jobs") for c in certs)
    idle = all(c.get("ready", 1) == 0 for c in certs)
    live = [p for p in case.job_pids() if case.alive(p)]
    notfinal = [k for k, s in (certs[-1].get("jobs") or {}).items() if s not in ("DONE", "ERROR")]
    if same and idle and not live and notfinal:
        # (token files may be left: with no live job process of the workspace nobody holds them legitimately)
        return f"scheduler quiescent for {len(certs)} certificates, no live job process, token files {case.token_files() or 'none'}, jobs not final: {certs[-1].get('jobs')}"
    return None


def capacity_sweep(events, amounts, total):
    """Running sum of the amounts held between start and end records, in log order."""
    held = {}
    worst = 0
    for kind, x, pid, ok in events:
        if kind == "start":
            held[(x, pid)] = amounts.get(x, 0)
            cur = sum(held.values())
            if cur > total:
                return cur, dict((f"{k[0]}", v) for k, v in held.items())
            worst = max(worst, cur)
        else:
            held.pop((x, pid), None)
    return None
