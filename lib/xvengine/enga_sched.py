"""Engine A – one real scheduler process: runs a plan with the real scheduler, real job processes.

    python enga_sched.py <plan.json> <workspace> <result.json>

plan = {"name": experiment name, "jobs": [{"x", "cls", "deps": [{"on", "how"}], "tokens": [{"tok", "n"}], "mode", "hold"}],
        "tokens": [{"name", "total"}], "env": {...}}
The result file receives the final state of every job; the progress file (<result>.progress, append-only) gets one line
per step so that a harness can tell where a killed scheduler was.
"""
import json
import os
import sys
import time
from pathlib import Path


def note(path, s):
    fd = os.open(path, os.O_WRONLY | os.O_APPEND | os.O_CREAT, 0o644)
    try:
        os.write(fd, (s + "\n").encode())
    finally:
        os.close(fd)


def main():
    plan = json.loads(Path(sys.argv[1]).read_text())
    ws = Path(sys.argv[2])
    result = Path(sys.argv[3])
    progress = str(result) + ".progress"
    import faulthandler
    import logging
    import signal

    faulthandler.register(signal.SIGUSR1, all_threads=True)  # hang diagnosis: thread dump into the .err file
    if os.environ.get("XV_DEBUG"):
        logging.basicConfig(level=logging.DEBUG)
    elif os.environ.get("XV_LOGLEVEL"):
        logging.basicConfig(level=getattr(logging, os.environ["XV_LOGLEVEL"]))
    else:
        logging.disable(logging.CRITICAL)
    from experimaestro import experiment
    from experimaestro.scheduler.base import FailedExperiment
    from xvmodels import zoo

    note(progress, f"start {os.getpid()}")
    outcome = "returned"
    states = {}
    tasks = {}
    # earlier experiment blocks of the same process (same experiment name), e.g. with another total for the same token
    for k, phase in enumerate(plan.get("before", [])):
        try:
            with experiment(ws, plan.get("name", "xp"), port=-1) as xp:
                for kk, v in plan.get("env", {}).items():
                    xp.workspace.launcher.setenv(kk, v)
                toks = [xp.workspace.connector.createtoken(t["name"], t["total"]) for t in phase.get("tokens", [])]
                for spec in phase["jobs"]:
                    t = zoo.TaskT(x=spec["x"], hold=spec.get("hold", 0))
                    for tk in spec.get("tokens", []):
                        t.add_dependencies(toks[tk["tok"]].dependency(tk["n"]))
                    t.submit()
            note(progress, f"phase-done {k}")
        except BaseException as e:
            note(progress, f"phase-failed {k} {type(e).__name__}")
    try:
        kw = {}
        if plan.get("run_mode") == "generate":
            from experimaestro.scheduler.workspace import RunMode

            kw["run_mode"] = RunMode.GENERATE_ONLY  # job files are written, nothing is scheduled
        with experiment(ws, plan.get("name", "xp"), port=-1, **kw) as xp:
            for k, v in plan.get("env", {}).items():
                xp.workspace.launcher.setenv(k, v)
            tokens = [xp.workspace.connector.createtoken(t["name"], t["total"]) for t in plan.get("tokens", [])]
            note(progress, "entered")
            outs = {}
            for j, spec in enumerate(plan["jobs"]):
                kw = {"x": spec["x"], "mode": spec.get("mode", "ok"), "hold": spec.get("hold", 0)}
                for d in spec.get("deps", []):
                    o = outs[d["on"]]
                    if d["how"] == "direct":
                        kw["direct"] = o
                    elif d["how"] == "lst":
                        kw.setdefault("lst", []).append(o)
                    elif d["how"] == "art":
                        kw["art"] = o
                    elif d["how"] == "arts":
                        kw.setdefault("arts", []).append(o)
                t = getattr(zoo, spec.get("cls", "TaskT"))(**kw)
                for tk in spec.get("tokens", []):
                    t.add_dependencies(tokens[tk["tok"]].dependency(tk["n"]))
                outs[j] = t.submit()
                tasks[j] = t
                note(progress, f"submitted {spec['x']} {t.__xpm__.job.path}")
                fut = getattr(t.__xpm__.job, "_future", None)
                if fut is not None:
                    # a scheduling coroutine that dies with an exception is otherwise silent
                    def report(f, x=spec["x"]):
                        if not f.cancelled() and f.exception() is not None:
                            import traceback

                            e = f.exception()
                            note(progress, f"job-coroutine-died {x} {e!r} :: " + " | ".join(traceback.format_exception(type(e), e, e.__traceback__)[-3:]).replace("\n", " "))

                    fut.add_done_callback(report)
            note(progress, "submitted-all")
    except FailedExperiment:
        outcome = "FailedExperiment"
    except BaseException as e:
        outcome = "exception:" + type(e).__name__
    for j, t in tasks.items():
        job = t.__xpm__.job
        states[str(plan["jobs"][j]["x"])] = job.state.name if job is not None and job.state is not None else None
    tmp = str(result) + ".tmp"
    Path(tmp).write_text(json.dumps({"outcome": outcome, "states": states, "pid": os.getpid()}))
    os.replace(tmp, result)
    note(progress, "done " + outcome)


if __name__ == "__main__":
    main()
