"""Executes a *plan* (DAG of jobs, tokens, exit codes, submission actions, foreign activity, successive runs)
on Engine B and evaluates the monitors of C04-C09 (and C16's index monitor) on the execution."""
import json
import os
import shutil
import threading
import time
from pathlib import Path

from . import engb


class AsyncioShim:
    """`asyncio` as seen by experimaestro.scheduler.base: run_coroutine_threadsafe futures are recorded."""

    def __getattr__(self, k):
        import asyncio

        return getattr(asyncio, k)

    def run_coroutine_threadsafe(self, coro, loop):
        import asyncio

        fut = asyncio.run_coroutine_threadsafe(coro, loop)
        r = CURRENT[0]
        if r is not None:
            r.on_coroutine(getattr(coro, "__qualname__", ""), fut)
        return fut


CURRENT = [None]
_SHIMMED = False


def install():
    global _SHIMMED
    engb.install()
    if not _SHIMMED:
        import experimaestro.scheduler.base as base

        base.asyncio = AsyncioShim()

        class _SignalShim:
            """signal handlers can only be installed from the main thread; the harness leaves the experiment
            block from a helper thread (so that a hang cannot hang the harness), hence a no-op stand-in."""

            def __getattr__(self, k):
                import signal

                return getattr(signal, k)

            def signal(self, *a):
                return None

            def getsignal(self, *a):
                return None

        base.signal = _SignalShim()
        _SHIMMED = True


EMBED_T = ["direct", "lst", "dct", "holder_t", "holder_ts", "pre_t", "pre_nested_t", "explicit", "meta_t", "meta_ts", "copied"]
EMBED_O = ["art", "arts", "adct", "holder_a", "pre_art", "init_art", "explicit", "meta_art", "copied", "self_t", "self_ts"]
SINGLE = {"direct", "art", "holder_t", "holder_a", "meta_t", "meta_art", "self_t"}
# "pre_on_out" (added by the plan generator, needs a second dependency as carrier): the upstream is embedded in a
# pre-task attached to the *output configuration of another upstream task*, which the job receives as a parameter


class PlanRun:
    def __init__(self, plan, seed, workdir, decisions=None):
        self.plan = plan
        self.seed = seed
        self.workdir = Path(workdir)
        self.decisions = decisions
        self.eng = None
        self.result = {"violations": [], "runs": []}
        self.wait_future = None
        self.wait_outcome = None
        self.wait_snapshot = None
        self.job_futures = {}
        self.jobdirs = {}

    # ---- recorded futures
    def on_coroutine(self, qualname, fut):
        if "awaitcompletion" in qualname:
            self.wait_future = fut
            fut.add_done_callback(self._wait_done)

    def _wait_done(self, fut):
        # runs when the experiment.wait() coroutine finishes: snapshot of the job states at that moment
        snap = {}
        for key, objs in self.eng.jobs.items():
            snap[key] = [j.state.name for j in objs if getattr(j, "_xv_run", None) is self.xp]
        self.wait_snapshot = (self.eng.step, snap)

    # ---- building the real task objects
    def build(self, j, attempt):
        from xvmodels import zoo
        from experimaestro import setmeta

        spec = self.plan["jobs"][j]
        cls = getattr(zoo, spec["cls"])
        kwargs = {"x": spec["x"]}
        pre, init, explicit, nested_pre = [], [], [], []
        n = 0
        for d in spec.get("deps", []):
            up = d["on"]
            out = self.outputs[up]
            how = d["how"]
            n += 1
            if how == "direct":
                kwargs["direct"] = out
            elif how == "lst":
                kwargs.setdefault("lst", []).append(out)
            elif how == "dct":
                kwargs.setdefault("dct", {})[f"k{n}"] = out
            elif how == "holder_t":
                kwargs["holder"] = zoo.Holder(t=out)
            elif how == "holder_ts":
                kwargs["holder"] = zoo.Holder(ts=[out])
            elif how == "art":
                kwargs["art"] = out
            elif how == "arts":
                kwargs.setdefault("arts", []).append(out)
            elif how == "adct":
                kwargs.setdefault("adct", {})[f"k{n}"] = out
            elif how == "holder_a":
                kwargs["holder"] = zoo.Holder(a=out)
            elif how == "pre_t":
                pre.append(zoo.Pre(k=n, t=out))
            elif how == "pre_art":
                pre.append(zoo.Pre(k=n, art=out))
            elif how == "pre_nested_t":
                nested_pre.append(zoo.Pre(k=n, t=out))
            elif how == "init_art":
                init.append(zoo.Init(k=n, art=out))
            elif how == "copied":
                # a fresh configuration that takes over the dependencies of the upstream's output (copy_dependencies)
                a = zoo.Artifact(v=1000 + n)
                a.copy_dependencies(out)
                kwargs.setdefault("arts", []).append(a)
            elif how == "self_t":
                # the task object itself of a class that declares task_outputs (not its output)
                kwargs["tb"] = self.tasks[up]
            elif how == "self_ts":
                kwargs.setdefault("tbs", []).append(self.tasks[up])
            elif how == "meta_t":
                kwargs["mt"] = out
            elif how == "meta_ts":
                kwargs.setdefault("mts", []).append(out)
            elif how == "meta_art":
                kwargs["ma"] = out
            elif how == "pre_on_out":
                carrier = self.outputs[d["carrier"]]
                mark = (id(carrier), up)
                if mark not in self.attached:
                    # once: the carrier is sealed by the first submission that embeds it
                    self.attached.add(mark)
                    carrier.add_pretasks(zoo.Pre(k=n, t=out) if d.get("up_cls", "TaskT").startswith("TaskT") else zoo.Pre(k=n, art=out))
            elif how == "explicit":
                explicit.append(self.tasks[up].__xpm__.dependency())
            else:
                raise ValueError(how)
        if nested_pre:
            leaf = zoo.Leaf(i=spec["x"])
            leaf.add_pretasks(*nested_pre)
            kwargs["leaf"] = leaf
        t = cls(**kwargs)
        if pre:
            t.add_pretasks(*pre)
        for tk in spec.get("tokens", []):
            if tk.get("via") != "listener":  # (listener: the launcher's submit listener puts the job under the token)
                t.add_dependencies(self.tokens[tk["tok"]].dependency(tk["n"]))
        if explicit:
            t.add_dependencies(*explicit)
        return t, init

    def submit(self, j, kind):
        """One user-thread action.  kind: submit | dup | resubmit"""
        eng = self.eng
        spec = self.plan["jobs"][j]
        key = f"j{j}"
        if kind == "dup":
            # an equal task submitted again is a duplicate only while the latest submission has not failed: after a
            # failure (its own, or a cancellation because a dependency failed again) the API defines it as a re-submission
            from experimaestro.scheduler.base import JobState

            objs = eng.jobs.get(key, [])
            if objs and objs[-1].state == JobState.ERROR:
                fut = getattr(objs[-1], "_future", None)
                if fut is not None and fut.done():
                    kind = "resubmit"
                    eng.events.append(("dup-is-resubmission", key, eng.step))
                else:
                    eng.events.append(("dup-skipped", key, eng.step))  # failed but not finished yet: neither case applies
                    return
        t, init = self.build(j, 0)
        before = len(self.xp.scheduler.jobs)
        rec = {"key": key, "kind": kind, "step": eng.step}
        if kind != "dup":
            object.__setattr__(t, "_xv_key", key)
            # the job is registered with the monitors by the launcher's submit listener, i.e. before the scheduler
            # can possibly launch it (with eager helper threads a launch may happen inside submit())
            self._submitting = {"key": key, "rec": rec, "spec": spec, "j": j}
        try:
            out = t.submit(init_tasks=init)
        finally:
            self._submitting = None
        job = t.__xpm__.job
        if kind == "dup":
            first_out = self.outputs[j]
            if out is not first_out:
                eng.violation("C05", "duplicate-submit-returns-other-object", f"second submission of job {j} returned a different object")
            if len(self.xp.scheduler.jobs) != before:
                eng.violation("C05", "duplicate-submit-registers-job", f"second submission of job {j} registered a new job ({before} -> {len(self.xp.scheduler.jobs)})")
            if getattr(job, "_future", None) is not None and job is not self.tasks[j].__xpm__.job:
                eng.violation("C05", "duplicate-submit-schedules-job", f"second submission of job {j} scheduled a second job object")
            self.actions_log.append(rec)
            return
        self.tasks[j] = t
        self.outputs[j] = out
        self.actions_log.append(rec)

    def on_job_submitted(self, job):
        """Launcher submit listener: runs inside ConfigInformation.submit, before the job reaches the scheduler."""
        ctxt = getattr(self, "_submitting", None)
        if ctxt is None or getattr(job.config, "_xv_key", None) != ctxt["key"]:
            return
        eng = self.eng
        key, rec, spec = ctxt["key"], ctxt["rec"], ctxt["spec"]
        if getattr(self, "generate", False):
            rec["generated_only"] = True  # never reaches the scheduler: not a job of this run for the monitors
            return
        for tk in spec.get("tokens", []):
            if tk.get("via") == "listener":
                # documented use of Launcher.onSubmit: "this allows the launcher to add token dependencies"
                job.dependencies.add(self.tokens[tk["tok"]].dependency(tk["n"]))
        live = [p for p in eng.procs.values() if p.jobkey == key and not p.exited]
        job._xv_key = key
        job._xv_run = self.xp
        rec["relpath"] = str(job.relpath)
        rec["jobpath"] = str(job.path)
        rec["adopted"] = live[0] if live and job.pidpath.is_file() else None
        rec["marker_at_submit"] = job.donepath.is_file()
        rec["upstream_objs"] = [(f"j{d['on']}", self.tasks[d["on"]].__xpm__.job) for d in spec.get("deps", [])]
        job._xv_rec = rec
        eng.jobs.setdefault(key, []).append(job)
        self.jobdirs[key] = str(job.path)
        eng.jobdir2key[str(job.path)] = key
        eng.codes[key] = spec.get("codes", [0])
        if spec.get("nomarker"):
            eng.nomarker.add(key)

    # ---- one run of the experiment
    def run_once(self, run_spec, run_index):
        from experimaestro import experiment
        from experimaestro.scheduler.base import FailedExperiment, JobState
        from experimaestro.tokens import CounterToken
        import experimaestro.ipc as xipc

        eng = self.eng
        eng.ipcom = engb.FakeIPCom()
        xipc.IPCom.INSTANCE = eng.ipcom
        launcher = engb.make_launcher(eng, self.workdir)
        launcher.addListener(self.on_job_submitted)
        self._submitting = None
        self.generate = run_spec.get("mode") == "generate"
        if self.generate:
            # a generate-only run: job files are written, nothing is scheduled, the index is not this run's business
            from experimaestro.scheduler.workspace import RunMode

            xp = experiment(self.workdir / "ws", run_spec.get("name", "xp"), launcher=launcher, run_mode=RunMode.GENERATE_ONLY)
        else:
            xp = experiment(self.workdir / "ws", run_spec.get("name", "xp"), launcher=launcher)
        self.xp = xp
        self.wait_future = None
        self.wait_outcome = None
        self.wait_snapshot = None
        self.tasks, self.outputs = {}, {}
        self.attached = set()
        self.actions_log = []
        rr = {"index": run_index, "end": run_spec.get("end", "normal")}
        xp.__enter__()
        eng.loop = xp.loop
        eng.xp = xp
        eng.wrap_loop(xp.loop)
        central = xp.central
        # the user cleaned the results of some jobs between two runs (markers removed, outputs gone)
        for j in run_spec.get("clean_before", []):
            jd = self.jobdirs.get(f"j{j}")
            if jd is not None and Path(jd).is_dir():
                for m in list(Path(jd).glob("*.done")) + list(Path(jd).glob("*.failed")):
                    m.unlink()
                eng.events.append(("cleaned", f"j{j}", eng.step))
                for h in eng.hooks:
                    if hasattr(h, "on_cleaned"):
                        h.on_cleaned(eng, f"j{j}")
        # job processes that outlived an aborted run may end before the experiment is run again
        for proc in list(eng.procs.values()):
            if not proc.owned and not proc.exited and proc.jobkey.startswith("j") and eng.eager_rng.random() < 0.3:
                proc.do_exit()
                eng.events.append(("orphan-exit-before-run", proc.jobkey, eng.step))
        self.tokens = []
        for ti, tk in enumerate(self.plan.get("tokens", [])):
            tok = CounterToken(f"tok{ti}-{self.seed}-{run_index}-{id(self)}", self.workdir / "tokens" / f"tok{ti}", tk["total"])
            tok._xv_index = ti
            self.tokens.append(tok)
        for h in eng.hooks:
            h.on_run_start(eng, self, run_index)

        actions = list(run_spec["actions"])
        foreign_budget = run_spec.get("foreign_ops", 0)
        abort_at = run_spec.get("abort_after")  # raise inside the block after this many actions
        abort_delay = run_spec.get("abort_delay", 0)
        nact = 0
        waiter = None
        aborted = False
        try:
            while True:
                eng.quiesce()
                eng.ipcom.diff()
                self.sample()
                choices = eng.enabled()
                if actions and self.action_enabled(actions[0]):
                    choices.append(("action", 0, "action:" + ":".join(str(a) for a in actions[0])))
                if abort_at is not None and nact >= abort_at and not aborted:
                    # the block raises here, or abort_delay scheduling steps later (what it submitted last gets started)
                    actions = []
                    choices = [c for c in choices if c[0] != "action"]
                    if abort_delay > 0 and choices:
                        abort_delay -= 1
                    else:
                        aborted = True
                        actions = []
                        break
                if not actions and waiter is None and rr["end"] == "normal":
                    choices.append(("wait", 0, "start-wait"))
                for fa in self.foreign_choices(foreign_budget):
                    choices.append(fa)
                for pid, p in eng.procs.items():
                    if not p.owned and not p.exited and p.jobkey.startswith("j"):
                        choices.append(("orphan", pid, f"orphan-exit:{p.jobkey}"))
                if not choices:
                    break
                lazy = run_spec.get("lazy_actions")
                if lazy and eng.decisions is None and eng.rng.random() < lazy:
                    # a block that submits slowly: what is already scheduled makes progress between two submissions
                    rest = [c for c in choices if c[0] != "action"]
                    if rest:
                        choices = rest
                c = eng.choose(choices)
                if c is None:
                    break
                eng.step += 1
                eng.trace.append(c[2])
                if c[0] == "action":
                    a = actions.pop(0)
                    nact += 1
                    self.submit(a[1], a[0])
                elif c[0] == "wait":
                    waiter = threading.Thread(target=self.do_wait, daemon=True)
                    waiter.start()
                    # the wait coroutine is posted by run_coroutine_threadsafe: give the thread time to post it
                    t0 = time.time()
                    while self.wait_future is None and time.time() - t0 < eng.watchdog:
                        time.sleep(0.0005)
                elif c[0] == "foreign":
                    foreign_budget -= 1
                    self.foreign_step(c)
                elif c[0] == "orphan":
                    eng.procs[c[1]].do_exit()
                else:
                    eng.deliver(c)
            eng.quiesce()
            eng.ipcom.diff()
            self.sample()
            rr["terminal"] = self.terminal_checks(rr, waiter, aborted)
        except TimeoutError:
            rr["inconclusive"] = eng.inconclusive
        finally:
            self.leave(xp, central, waiter, rr, aborted)
        rr["actions"] = [{k: v for k, v in a.items() if k not in ("upstream_objs", "adopted")} for a in self.actions_log]
        self.result["runs"].append(rr)
        return rr

    def action_enabled(self, a):
        kind, j = a[0], a[1]
        from experimaestro.scheduler.base import JobState

        if kind == "resubmit":
            objs = self.eng.jobs.get(f"j{j}", [])
            # the API allows re-submission once the job has failed (and its coroutine finished)
            return bool(objs) and objs[-1].state == JobState.ERROR and objs[-1]._future is not None and objs[-1]._future.done()
        # a task can only be built once everything it embeds has been submitted in this run
        spec = self.plan["jobs"][j]
        return all(d["on"] in self.outputs for d in spec.get("deps", [])) and (kind != "dup" or j in self.outputs)

    def do_wait(self):
        from experimaestro.scheduler.base import FailedExperiment

        try:
            self.xp.wait()
            self.wait_outcome = "returned"
        except FailedExperiment:
            self.wait_outcome = "FailedExperiment"
        except BaseException as e:
            self.wait_outcome = "exception:" + type(e).__name__

    def sample(self):
        snap = {}
        for key, objs in self.eng.jobs.items():
            snap[key] = [(j.state.name if j.state else None) for j in objs]
        self.eng.samples.append((self.eng.step, snap))
        for h in self.eng.hooks:
            h.on_quiescent(self.eng, self)

    # ---- foreign agent (another process sharing the token directory)
    def foreign_choices(self, budget):
        res = []
        fs = self.plan.get("foreign")
        if not fs:
            return res
        st = self.foreign_state()
        if st["held"]:
            res.append(("foreign", "release", "foreign:release"))
        if budget <= 0:
            return res  # the other process winds down: it only gives back what it holds
        if len(st["held"]) < fs.get("max_held", 2):
            res.append(("foreign", "acquire", "foreign:acquire"))
            if fs.get("twostep"):
                res.append(("foreign", "acquire2", "foreign:acquire-created-before-written"))
        return res

    def foreign_state(self):
        if not hasattr(self, "_foreign"):
            self._foreign = {"held": [], "n": 0, "token": None}
        return self._foreign

    def foreign_token(self):
        """A second real CounterToken object on the same directory = the token as another process sees it."""
        from experimaestro.tokens import CounterToken

        st = self.foreign_state()
        fs = self.plan["foreign"]
        mine = self.tokens[fs["token"]]
        if st["token"] is None or st["token"].path != mine.path or st.get("run") is not self.xp:
            tok = CounterToken.__new__(CounterToken)
            CounterToken.__init__(tok, f"foreign-{id(self)}-{self.eng.step}", mine.path, mine.total, force=False)
            # the foreign process has its own observer; its handler is not ours to drive
            self.eng.ipcom.fsunwatch(tok)
            st["token"] = tok
            st["run"] = self.xp
        return st["token"]

    def foreign_step(self, c):
        from experimaestro.locking import LockError
        from experimaestro.tokens import CounterTokenDependency

        st = self.foreign_state()
        fs = self.plan["foreign"]
        tok = self.foreign_token()
        eng = self.eng
        if c[1] == "release":
            dep = st["held"].pop(eng.eager_rng.randrange(len(st["held"])))
            # the foreign job ends, then its scheduler gives the token back
            dep._xv_proc.do_exit()
            tok.release(dep)
            for h in eng.hooks:
                h.on_foreign(eng, "release", dep.count, tok)
            return
        st["n"] += 1
        count = fs.get("requests", [1])[st["n"] % len(fs.get("requests", [1]))]
        dep = CounterTokenDependency(tok, count)

        class _Target:
            identifier = f"foreign{st['n']:04d}"
            basepath = self.workdir / "foreignjobs" / f"f{st['n']}" / "f"

        dep.target = _Target()
        dep.loop = eng.loop

        def start_foreign_job():
            """The foreign scheduler's job: a live process recorded in a pid file, as a real one would be."""
            jobdir = _Target.basepath.parent
            jobdir.mkdir(parents=True, exist_ok=True)
            eng.next_pid += 1
            proc = engb.SimProcess(eng, eng.next_pid, jobdir, "f", 0, f"foreign{st['n']}", 0)
            proc.owned = False
            eng.procs[proc.pid] = proc
            (jobdir / "f.pid").write_text(json.dumps(proc.tospec()))
            dep._xv_proc = proc

        if c[1] == "acquire2":
            # the other process has created the token file but not written it yet (open() then write());
            # it holds the inter-process lock meanwhile, so only filesystem notifications can interleave
            with tok.lock, tok.ipc_lock:
                tok._update()
                if tok.available < count:
                    return
                path = tok.path / dep.name
                path.touch()
                eng.ipcom.diff()
                # deliver our own 'created' notification before the content is written
                for wi, w in enumerate(eng.ipcom.watches):
                    while w.active and w.queue and not eng.ipcom.dead:
                        eng.events.append(("fs-early", type(w.queue[0]).__name__, eng.step))
                        eng.deliver(("fs", wi, ""))
                path.write_text(f"{count}\n{_Target.basepath}\n")
            tok.cache.pop(dep.name, None)
            try:
                with tok.lock, tok.ipc_lock:
                    tok._update()
            except Exception:
                pass
            start_foreign_job()
            st["held"].append(dep)
            for h in eng.hooks:
                h.on_foreign(eng, "acquire", count, tok)
            return
        try:
            tok.acquire(dep)
        except LockError:
            return
        start_foreign_job()
        st["held"].append(dep)
        for h in eng.hooks:
            h.on_foreign(eng, "acquire", count, tok)

    # ---- end of run
    def terminal_checks(self, rr, waiter, aborted):
        for h in self.eng.hooks:
            h.on_terminal(self.eng, self, rr, waiter, aborted)
        return True

    def leave(self, xp, central, waiter, rr, aborted):
        """Leave the experiment block without ever hanging the harness."""
        eng = self.eng
        loop = central.loop if central is not None else None
        hung = waiter is not None and self.wait_future is not None and not self.wait_future.done()
        if hung:
            self.wait_future.cancel()
        if waiter is not None:
            waiter.join(eng.watchdog)
        exc = (None, None, None)
        # the normal path calls wait() again: only safe when it is known to return at once
        unsafe = xp.unfinishedJobs != 0 or xp.taskOutputQueueSize != 0
        if aborted or rr.get("end") == "exception" or hung or rr.get("inconclusive") or waiter is None or unsafe:
            exc = (RuntimeError, RuntimeError("block raised"), None)
        rr["left"] = "normal" if exc[0] is None else "exception"
        done = threading.Event()
        err = []

        def doexit():
            try:
                xp.__exit__(*exc)
            except BaseException as e:
                err.append(e)
            done.set()

        th = threading.Thread(target=doexit, daemon=True)
        th.start()
        if not done.wait(eng.watchdog):
            rr["inconclusive"] = "experiment.__exit__ did not return"
            eng.inconclusive = rr["inconclusive"]
        rr["exit_exception"] = type(err[0]).__name__ if err else None
        # the loop thread only notices stop() when it wakes up
        if loop is not None:
            try:
                eng._orig_cst(lambda: None)
            except Exception:
                pass
            central.join(2)
            if not central.is_alive():
                try:
                    loop.close()
                except Exception:
                    pass
        # what was left pending belongs to a scheduler that no longer exists
        with eng.plock:
            eng.pending.clear()
        for p in eng.procs.values():
            if not p.exited:
                p.owned = False
        for h in eng.hooks:
            h.on_run_end(eng, self, rr)

    # ---- whole plan
    def run(self):
        install()
        self.eng = engb.Engine(self.seed, self.workdir, self.decisions)
        engb.ENGINE = self.eng
        CURRENT[0] = self
        os.environ["XPM_WORKDIR"] = str(self.workdir / "local")
        try:
            for h in self.hooks_factory():
                self.eng.hooks.append(h)
            for ri, run_spec in enumerate(self.plan["runs"]):
                rr = self.run_once(run_spec, ri)
                if rr.get("inconclusive"):
                    break
        finally:
            engb.ENGINE = None
            CURRENT[0] = None
        self.result["violations"] = self.eng.violations
        self.result["trace"] = self.eng.trace
        self.result["events"] = self.eng.events
        self.result["inconclusive"] = self.eng.inconclusive
        self.result["steps"] = self.eng.step
        return self.result

    def hooks_factory(self):
        from .monitors import standard_monitors

        from .monitors import IndexMonitor

        return standard_monitors(self.plan) + [IndexMonitor(self.plan)]


def run_plan(plan, seed, scratch, decisions=None, keep=False):
    wd = Path(scratch) / f"engb-{os.getpid()}-{seed}-{time.time_ns() % 10**9}"
    wd.mkdir(parents=True)
    try:
        pr = PlanRun(plan, seed, wd, decisions)
        res = pr.run()
        res["workdir"] = str(wd)
        return res
    finally:
        if not keep:
            shutil.rmtree(wd, ignore_errors=True)


import contextlib


@contextlib.contextmanager
def controlled_experiment(workdir, name="cx"):
    """A NORMAL-mode experiment on the controlled engine with nobody driving it: jobs get registered
    and scheduled for real, but no helper thread ever runs and nothing is launched."""
    from experimaestro import experiment
    import experimaestro.ipc as xipc

    install()
    workdir = Path(workdir)
    workdir.mkdir(parents=True, exist_ok=True)
    eng = engb.Engine(0, workdir)
    prev_engine, prev_cur, prev_ipc = engb.ENGINE, CURRENT[0], xipc.IPCom.INSTANCE
    engb.ENGINE = eng
    eng.ipcom = engb.FakeIPCom()
    xipc.IPCom.INSTANCE = eng.ipcom
    xp = experiment(workdir / "ws", name, launcher=engb.make_launcher(eng, workdir))
    xp.__enter__()
    central = xp.central
    eng.loop = xp.loop
    xp._xv_engine = eng
    try:
        yield xp
    finally:
        loop = central.loop
        try:
            xp.__exit__(RuntimeError, RuntimeError("leaving"), None)
        finally:
            try:
                loop.call_soon_threadsafe(lambda: None)
            except Exception:
                pass
            central.join(2)
            if not central.is_alive():
                try:
                    loop.close()
                except Exception:
                    pass
            engb.ENGINE, CURRENT[0], xipc.IPCom.INSTANCE = prev_engine, prev_cur, prev_ipc
            shutil.rmtree(workdir, ignore_errors=True)
