"""Monitors evaluated on Engine-B executions.  Each violation names the properties it refutes;
the checks keep the ones of their own property.

Ground truth never comes from the scheduler's own bookkeeping: upstream relations are those of the *plan*
(which task objects the harness embedded where), outcomes are the planned exit codes and the markers present
at submission time, capacity is a ledger kept by the monitor."""
from pathlib import Path


class Monitor:
    def on_run_start(self, eng, pr, run_index):
        pass

    def on_launch(self, eng, key, proc):
        pass

    def on_exit(self, eng, key, proc):
        pass

    def on_foreign(self, eng, what, count, tok):
        pass

    def on_observer_died(self, eng, exc):
        pass

    def on_quiescent(self, eng, pr):
        pass

    def on_terminal(self, eng, pr, rr, waiter, aborted):
        pass

    def on_run_end(self, eng, pr, rr):
        pass


def V(eng, props, mechanism, message):
    eng.violations.append({"properties": props, "mechanism": mechanism, "message": message, "step": eng.step})


class LaunchMonitor(Monitor):
    """C04 order, C05 at-most-once, C07 containment at launch time, C08 capacity ledger."""

    def __init__(self, plan):
        self.plan = plan
        self.succeeded = set()  # keys whose process exited with 0 (in any run of this workspace)
        self.failed_last = {}
        self.live = {}  # key -> live process
        self.ledger = {}  # token index -> {holder: count}
        self.launches = 0

    def upstream(self, key):
        j = int(key[1:])
        return [f"j{d['on']}" for d in self.plan["jobs"][j].get("deps", [])]

    def on_launch(self, eng, key, proc):
        self.launches += 1
        objs = eng.jobs.get(key, [])
        proc.jobobj = next((o for o in reversed(objs) if o.state is not None and not o.state.finished()), objs[-1] if objs else None)
        if proc.jobobj is not None:
            proc.jobobj.__dict__.setdefault("_xv_launches", []).append(proc)
        for u in self.upstream(key):
            if u not in self.succeeded:
                props = ["C04"]
                if self.failed_last.get(u):
                    props.append("C07")
                V(eng, props, "launch-before-dependency-succeeded", f"job {key} launched at step {eng.step} while its upstream {u} has not succeeded (failed={bool(self.failed_last.get(u))})")
        if key in self.succeeded:
            V(eng, ["C05"], "relaunch-after-success", f"job {key} launched again although it had already succeeded")
        if key in self.live and not self.live[key].exited:
            V(eng, ["C05"], "concurrent-launch", f"job {key} launched while a process of the same job is still running")
        self.live[key] = proc
        j = int(key[1:])
        for tk in self.plan["jobs"][j].get("tokens", []):
            led = self.ledger.setdefault(tk["tok"], {})
            led[key] = tk["n"]
            total = self.plan["tokens"][tk["tok"]]["total"]
            if sum(led.values()) > total:
                V(eng, ["C08"], "capacity-exceeded", f"token {tk['tok']} (total {total}) held {dict(led)} when job {key} was launched")

    def on_exit(self, eng, key, proc):
        if proc.code == 0:
            self.succeeded.add(key)
            self.failed_last[key] = False
        else:
            self.failed_last[key] = True
        j = int(key[1:])
        for tk in self.plan["jobs"][j].get("tokens", []):
            self.ledger.get(tk["tok"], {}).pop(key, None)

    def on_cleaned(self, eng, key):
        # the success marker is gone: the job has to succeed again before its dependents may be launched
        self.succeeded.discard(key)

    def on_foreign(self, eng, what, count, tok):
        fs = self.plan.get("foreign")
        led = self.ledger.setdefault(fs["token"], {})
        if what == "acquire":
            n = sum(1 for k in led if k.startswith("foreign"))
            led[f"foreign{eng.step}.{n}"] = count
            total = self.plan["tokens"][fs["token"]]["total"]
            if sum(led.values()) > total:
                V(eng, ["C08"], "capacity-exceeded", f"token {fs['token']} (total {total}) held {dict(led)} after a foreign acquisition was granted")
        else:
            for k in list(led):
                if k.startswith("foreign") and led[k] == count:
                    del led[k]
                    break

    def on_quiescent(self, eng, pr):
        # the authoritative on-disk record must never exceed the capacity either
        for ti, tk in enumerate(self.plan.get("tokens", [])):
            d = pr.workdir / "tokens" / f"tok{ti}"
            tot = 0
            for f in d.glob("*.token"):
                try:
                    tot += int(f.read_text().split("\n")[0])
                except Exception:
                    pass
            if tot > tk["total"]:
                V(eng, ["C08"], "capacity-exceeded-on-disk", f"token {ti}: token files hold {tot} of {tk['total']}")


class StateMonitor(Monitor):
    """C06 truthful, stable final states and experiment exit; C07 containment of failures; C05 counts."""

    def __init__(self, plan):
        self.plan = plan
        self.final_seen = {}  # id(job) -> (state name, step)
        self.reattached_seen = set()

    def on_quiescent(self, eng, pr):
        for key, objs in eng.jobs.items():
            for o in objs:
                st = o.state
                if st is None:
                    continue
                rec = getattr(o, "_xv_rec", None)
                if rec is not None and rec.get("adopted") is not None and id(o) not in self.reattached_seen and getattr(o, "_future", None) is not None and not o._future.done():
                    # coverage: a dependency failed while the scheduler was still waiting for the re-attached process of a dependent
                    if any(getattr(u, "state", None) is not None and u.state.name == "ERROR" for _, u in rec.get("upstream_objs", [])):
                        self.reattached_seen.add(id(o))
                        eng.events.append(("dependency-failed-under-reattached-job", key, eng.step))
                prev = self.final_seen.get(id(o))
                if prev is not None and prev[0] != st.name:
                    V(eng, ["C06"], "final-state-changed", f"job {key} was {prev[0]} at step {prev[1]} and is {st.name} at step {eng.step}")
                    self.final_seen[id(o)] = (st.name, eng.step) if st.finished() else prev
                elif prev is None and st.finished():
                    self.final_seen[id(o)] = (st.name, eng.step)
                fut = getattr(o, "_future", None)
                if fut is not None and fut.done() and not fut.cancelled() and fut.exception() is None:
                    r = fut.result()
                    if not r.finished():
                        V(eng, ["C06"], "wait-returns-non-final-state", f"waiting on job {key} returns {r.name}")
                    elif st.finished() and r != st:
                        V(eng, ["C06"], "wait-disagrees-with-state", f"waiting on job {key} returns {r.name} but its state is {st.name}")

    def expected(self, eng, obj, memo):
        """Ground truth of one job object: ('DONE'|'ERROR', launches expected)."""
        if id(obj) in memo:
            return memo[id(obj)]
        rec = obj._xv_rec
        memo[id(obj)] = ("?", None)
        if rec.get("marker_at_submit"):
            res = ("DONE", 0)
        elif rec.get("adopted") is not None:
            # a process of an earlier run that is still alive was re-attached: the property ties the final state to the
            # exit status of the job's process, whatever happens to its dependencies while it runs (seen in the
            # thorough tier: the dependency was cleaned, ran again and failed while the re-attached dependent ran)
            res = ("DONE" if rec["adopted"].code == 0 else "ERROR", 0)
        else:
            upfail = False
            for ukey, uobj in rec.get("upstream_objs", []):
                if hasattr(uobj, "_xv_rec"):
                    if self.expected(eng, uobj, memo)[0] == "ERROR":
                        upfail = True
            if not upfail and self.failed_ancestor(eng, obj, set()):
                # a transitive ancestor failed in this run while every direct upstream is DONE (kept its success marker
                # from an earlier run): the statement of C07 cancels transitive dependents, the scheduler follows direct
                # dependencies (and, through pre-tasks, some transitive ones): both outcomes are accepted
                res = ("EITHER", None)
            elif upfail:
                res = ("ERROR", 0)
            elif rec.get("adopted") is not None:
                p = rec["adopted"]
                # a re-attached process: the markers it leaves decide
                res = ("DONE" if p.code == 0 else "ERROR", 0)
            else:
                launches = obj.__dict__.get("_xv_launches", [])
                if not launches:
                    res = ("LAUNCH-MISSING", 1)
                else:
                    res = ("DONE" if launches[-1].code == 0 else "ERROR", 1)
        memo[id(obj)] = res
        return res

    def failed_ancestor(self, eng, obj, seen):
        for ukey, uobj in obj._xv_rec.get("upstream_objs", []):
            if id(uobj) in seen or not hasattr(uobj, "_xv_rec"):
                continue
            seen.add(id(uobj))
            launches = uobj.__dict__.get("_xv_launches", [])
            if launches and launches[-1].code != 0:
                return True
            if self.failed_ancestor(eng, uobj, seen):
                return True
        return False

    def on_terminal(self, eng, pr, rr, waiter, aborted):
        from experimaestro.scheduler.base import JobState

        if aborted or rr.get("end") != "normal":
            return
        memo = {}
        anyfail = False
        allfinal = True
        for key, objs in eng.jobs.items():
            for o in objs:
                if getattr(o, "_xv_run", None) is not pr.xp:
                    continue
                st = o.state
                exp, nl = self.expected(eng, o, memo)
                launches = o.__dict__.get("_xv_launches", [])
                if st is None or not st.finished():
                    allfinal = False
                    props = ["C06"]
                    mech = "job-never-finishes"
                    if exp == "ERROR" and nl == 0:
                        props.append("C07")
                    V(eng, props, mech, f"at terminal quiescence job {key} is {st.name if st else None} (expected {exp}); nothing can wake it any more")
                    continue
                if st == JobState.ERROR:
                    anyfail = True
                fut = getattr(o, "_future", None)
                if fut is None or not fut.done():
                    V(eng, ["C06"], "job-future-unresolved", f"job {key} is {st.name} but waiting on it would hang (future not resolved)")
                if exp == "EITHER":
                    continue
                if exp == "LAUNCH-MISSING":
                    props = ["C06", "C07"] if st == JobState.ERROR else ["C06"]
                    V(eng, props, "final-without-process", f"job {key} ended {st.name} without ever being launched although nothing it depends on failed")
                    continue
                if exp in ("DONE", "ERROR") and st.name != exp:
                    props = ["C06"]
                    if exp == "ERROR" and nl == 0:
                        props.append("C07")  # dependent of a failed job did not end in error
                    if exp == "DONE":
                        props.append("C07")  # a job without failed ancestor did not complete
                    V(eng, props, "untruthful-final-state", f"job {key} ended {st.name}, ground truth {exp} (launches {[(p.pid, p.code) for p in launches]})")
                if nl == 0 and launches:
                    props = ["C07"] if exp == "ERROR" else ["C05"]
                    V(eng, props, "launched-although-not-runnable", f"job {key} (expected {exp} without launch) was launched {len(launches)} time(s)")
                if len(launches) > 1:
                    V(eng, ["C05"], "job-object-launched-twice", f"job {key} launched {len(launches)} times")
        # experiment-level
        unf = pr.xp.unfinishedJobs
        if allfinal and unf != 0:
            V(eng, ["C06"], "unfinished-counter-drift", f"all jobs are final but unfinishedJobs = {unf}")
        if waiter is not None:
            fut = pr.wait_future
            if fut is None or not fut.done():
                if allfinal:
                    V(eng, ["C06"], "experiment-wait-hangs", f"all jobs are final, nothing is pending, yet experiment.wait() has not returned (unfinishedJobs={unf})")
            else:
                step, snap = pr.wait_snapshot or (None, {})
                notfinal = [(k, s) for k, ss in snap.items() for s in ss if s not in ("DONE", "ERROR")]
                mine = [(k, s) for k, s in notfinal]
                if mine and not rr.get("resubmitted"):
                    V(eng, ["C06"], "experiment-wait-returns-early", f"experiment.wait() finished at step {step} while jobs were not final: {mine[:4]}")
                if allfinal:
                    outcome = "FailedExperiment" if fut.exception() is not None and type(fut.exception()).__name__ == "FailedExperiment" else ("returned" if fut.exception() is None else type(fut.exception()).__name__)
                    resub_ok = rr.get("resubmitted_success")
                    if anyfail and outcome != "FailedExperiment" and not resub_ok:
                        V(eng, ["C07"], "failure-not-reported", f"some job failed but experiment.wait() {outcome}")
                    final_fail = any(objs[-1].state == JobState.ERROR for objs in eng.jobs.values() if getattr(objs[-1], "_xv_run", None) is pr.xp)
                    if not anyfail and outcome != "returned":
                        V(eng, ["C07"], "success-reported-as-failure", f"no job failed but experiment.wait() ended with {outcome}")
                    if outcome not in ("returned", "FailedExperiment"):
                        V(eng, ["C06"], "experiment-wait-raises", f"experiment.wait() ended with {outcome}")


    def on_run_end(self, eng, pr, rr):
        """Leaving the block (after an explicit experiment.wait() inside it, which the driver always performs first and
        whose FailedExperiment it catches): the exit itself must report failure exactly when a job of the run failed."""
        from experimaestro.scheduler.base import JobState

        if rr.get("inconclusive") or rr.get("left") != "normal" or rr.get("resubmitted"):
            return
        mine = [o for objs in eng.jobs.values() for o in objs if getattr(o, "_xv_run", None) is pr.xp]
        if not mine or any(o.state is None or not o.state.finished() for o in mine):
            return
        anyfail = any(o.state == JobState.ERROR for o in mine)
        got = rr.get("exit_exception")
        eng.events.append(("block-left-normally", "FailedExperiment" if anyfail else "no failure", eng.step))
        if anyfail and got != "FailedExperiment":
            V(eng, ["C07"], "exit-does-not-report-failure", f"a job failed, experiment.wait() inside the block raised, but leaving the block raised {got}")
        elif not anyfail and got is not None:
            V(eng, ["C07"], "exit-reports-failure-without-failed-job", f"no job failed but leaving the block raised {got}")


class TokenMonitor(Monitor):
    """C09: tokens given back, waiting jobs run; class invariant of C08 inside the token's own locks."""

    def __init__(self, plan):
        self.plan = plan
        self.foreign_seen = False

    def on_foreign(self, eng, what, count, tok):
        self.foreign_seen = True

    def on_observer_died(self, eng, exc):
        V(eng, ["C09"], "observer-thread-died", f"a filesystem handler raised {exc!r}: the watchdog observer thread dies and this process never sees another release")

    def on_terminal(self, eng, pr, rr, waiter, aborted):
        from experimaestro.scheduler.base import JobState
        from experimaestro.tokens import CounterToken

        if aborted or rr.get("end") != "normal":
            return
        live = [p for p in eng.procs.values() if not p.exited and p.jobkey.startswith("j")]
        if live:
            return  # orphan processes legitimately hold their tokens
        fheld = pr.foreign_state()["held"] if pr.plan.get("foreign") else []
        for ti, tk in enumerate(self.plan.get("tokens", [])):
            d = pr.workdir / "tokens" / f"tok{ti}"
            files = sorted(f.name for f in d.glob("*.token"))
            foreign_files = sorted(dep.name for dep in fheld) if pr.plan.get("foreign", {}).get("token") == ti else []
            left = [f for f in files if f not in foreign_files]
            if left:
                V(eng, ["C09"], "token-file-left", f"token {ti}: files {left} remain although every job has ended")
            fresh = CounterToken.__new__(CounterToken)
            try:
                CounterToken.__init__(fresh, f"recount-{id(pr)}-{ti}-{eng.step}", d, tk["total"], force=False)
                eng.ipcom.fsunwatch(fresh)
                want = tk["total"] - sum(dep.count for dep in fheld if pr.plan.get("foreign", {}).get("token") == ti)
                if fresh.available != want:
                    V(eng, ["C09"], "capacity-not-restored", f"token {ti}: a fresh recount shows {fresh.available} available, expected {want}")
            except Exception as e:
                V(eng, ["C09"], "token-directory-unreadable", f"token {ti}: recount raised {e!r}")
            mine = pr.tokens[ti]
            if not self.foreign_seen and mine.available != tk["total"]:
                V(eng, ["C09"], "in-memory-availability-drift", f"token {ti}: idle token shows {mine.available} of {tk['total']} (single process, no foreign activity)")
            # waiting job that fits
            free = tk["total"] - sum(dep.count for dep in fheld if pr.plan.get("foreign", {}).get("token") == ti)
            for key, objs in eng.jobs.items():
                o = objs[-1]
                if getattr(o, "_xv_run", None) is not pr.xp:
                    continue
                j = int(key[1:])
                need = [t["n"] for t in self.plan["jobs"][j].get("tokens", []) if t["tok"] == ti]
                if need and o.state in (JobState.WAITING, JobState.READY) and need[0] <= free:
                    others_ok = all(getattr(u, "state", None) == JobState.DONE for _, u in o._xv_rec.get("upstream_objs", []))
                    if others_ok:
                        V(eng, ["C09", "C06"], "waiting-job-with-free-capacity", f"job {key} is {o.state.name} needing {need[0]} of token {ti} while {free} are free and nothing is pending")


def standard_monitors(plan):
    return [LaunchMonitor(plan), StateMonitor(plan), TokenMonitor(plan)]


class IndexMonitor(Monitor):
    """C16: xp/<name>/jobs lists exactly the jobs of the last completed plan; the backup index protects the rest."""

    def __init__(self, plan):
        self.plan = plan
        self.last_completed = {}  # relpath -> job path
        self.begun = {}  # submitted in aborted runs since the last completed one
        self.this_run = {}

    def on_run_start(self, eng, pr, run_index):
        self.this_run = {}

    @staticmethod
    def links(d):
        res = {}
        if d.is_dir():
            for p in d.glob("*/*"):
                if p.is_symlink():
                    import os

                    res[str(p.relative_to(d))] = os.readlink(p)
        return res

    def on_quiescent(self, eng, pr):
        for a in pr.actions_log:
            if a["kind"] != "dup" and "relpath" in a:
                self.this_run[a["relpath"]] = a["jobpath"]

    def on_run_end(self, eng, pr, rr):
        self.on_quiescent(eng, pr)
        xpdir = pr.workdir / "ws" / "xp" / pr.plan["runs"][rr["index"]].get("name", "xp")
        jobs = self.links(xpdir / "jobs")
        bak = self.links(xpdir / "jobs.bak")
        rr["index_jobs"] = len(jobs)
        rr["index_bak"] = len(bak)
        if rr.get("inconclusive"):
            return
        if pr.plan["runs"][rr["index"]].get("mode") == "generate":
            # a generate-only run is not a plan: index and backup must be what the previous run left
            prev = getattr(self, "snapshot", None)
            eng.events.append(("generate-only-run", len(bak), eng.step))
            if prev is not None and (jobs, bak) != prev:
                what = "the backup index was dropped" if prev[1] and not bak else "the index changed"
                V(eng, ["C16"], "index-changed-by-generate-only-run", f"run {rr['index']} (generate-only, left {rr.get('left')}): {what}: jobs {len(prev[0])} -> {len(jobs)}, backup {len(prev[1])} -> {len(bak)}")
            self.snapshot = (jobs, bak)
            return
        self.snapshot = (jobs, bak)
        if rr.get("left") == "normal":
            if jobs != self.this_run:
                extra = sorted(set(jobs) - set(self.this_run))
                missing = sorted(set(self.this_run) - set(jobs))
                wrong = sorted(k for k in jobs if k in self.this_run and jobs[k] != self.this_run[k])
                V(eng, ["C16"], "index-differs-from-plan", f"run {rr['index']} ended normally: index has extra {extra[:3]}, misses {missing[:3]}, wrong targets {wrong[:3]}")
            if (xpdir / "jobs.bak").exists():
                V(eng, ["C16"], "backup-index-remains", f"run {rr['index']} ended normally but jobs.bak still exists ({len(bak)} links)")
            self.last_completed = dict(self.this_run)
            self.begun = {}
        else:
            self.begun.update(self.this_run)
            protected = dict(self.last_completed)
            protected.update(self.begun)
            both = dict(bak)
            both.update(jobs)
            lost = sorted(k for k in protected if k not in both)
            if lost:
                V(eng, ["C16"], "protected-job-unindexed", f"run {rr['index']} was aborted: jobs {lost[:3]} (last completed plan or begun by an aborted run) are in neither jobs nor jobs.bak")
            wrong = sorted(k for k in protected if k in both and both[k] != protected[k])
            if wrong:
                V(eng, ["C16"], "index-link-wrong-target", f"links {wrong[:3]} do not point to their job directory")
        rr["protected"] = sorted(set(self.last_completed) | set(self.begun))
        if self.plan.get("check_orphans"):
            self.check_orphans(eng, pr, rr)

    def check_orphans(self, eng, pr, rr):
        """The real 'orphans' command must not report a protected job."""
        from click.testing import CliRunner
        from experimaestro.cli import cli

        ws = pr.workdir / "ws"
        res = CliRunner().invoke(cli, ["orphans", str(ws)])
        if res.exception is not None and not isinstance(res.exception, SystemExit):
            V(eng, ["C16"], "orphans-command-raises", f"{res.exception!r}")
            return
        listed = {l.strip() for l in res.output.splitlines()}
        rr["orphans_listed"] = len([l for l in listed if "/" in l])
        for rel in rr["protected"]:
            if rel in listed and (ws / "jobs" / rel).is_dir():
                V(eng, ["C16"], "protected-job-reported-orphan", f"after run {rr['index']} ({rr.get('left')}): {rel} is reported as orphan")
