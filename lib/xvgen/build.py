"""Executes a recipe with the real experimaestro classes (the counterpart of xvgen.shadow)."""
import importlib
from pathlib import Path

from .schema import SCHEMA


class Built:
    def __init__(self):
        self.real = {}  # nid -> real configuration object
        self.ids = []  # (nid, raw hex, full hex) in request order
        self.outputs = {}  # nid -> object returned by submit
        self.errors = []


class Builder:
    def __init__(self, module="xvmodels.zoo", seal_dir="/xvseal"):
        self.mod = importlib.import_module(module)
        self.seal_dir = seal_dir

    def to_real(self, v, b):
        if v is None or isinstance(v, (bool, int, str)):
            return v
        if isinstance(v, list):
            return [self.to_real(x, b) for x in v]
        if "$f" in v:
            return float.fromhex(v["$f"])
        if "$p" in v:
            return Path(v["$p"])
        if "$e" in v:
            return getattr(self.mod, v["$e"][0])[v["$e"][1]]
        if "$r" in v:
            return b.real[v["$r"]]
        if "$o" in v:
            return b.outputs[v["$o"]]
        if "$d" in v:
            return {k: self.to_real(x, b) for k, x in v["$d"].items()}
        raise ValueError(v)

    def register_implicit(self, nid, b, given=()):
        """Default clones created by the constructor become addressable nodes."""
        obj = b.real[nid]
        cls = type(obj).__xpmtype__.basetype.__name__
        for name, p in SCHEMA[cls]["params"].items():
            if name not in given and isinstance(p.default, dict) and "$new" in p.default:
                key = f"{nid}.{name}"
                if key not in b.real:
                    v = obj.__xpm__.values.get(name)
                    if v is not None:
                        b.real[key] = v

    def step(self, s, b):
        from experimaestro import setmeta
        from experimaestro.xpmutils import DirectoryContext

        op = s[0]
        if op == "new":
            cls = getattr(self.mod, s[2])
            kwargs = {k: self.to_real(v, b) for k, v in s[3]}
            b.real[s[1]] = cls(**kwargs)
            self.register_implicit(s[1], b, {k for k, _ in s[3]})
        elif op == "set":
            setattr(b.real[s[1]], s[2], self.to_real(s[3], b))
        elif op == "meta":
            setmeta(b.real[s[1]], s[2])
        elif op == "tag":
            b.real[s[1]].tag(s[2], s[3])
        elif op == "pre":
            b.real[s[1]].add_pretasks(*[b.real[p] for p in s[2]])
        elif op == "submit":
            out = b.real[s[1]].submit(init_tasks=[b.real[i] for i in s[2]])
            b.outputs[s[1]] = out
            if SCHEMA[type(b.real[s[1]]).__xpmtype__.basetype.__name__].get("output"):
                b.real[f"{s[1]}.out"] = out
        elif op == "seal":
            b.real[s[1]].__xpm__.seal(DirectoryContext(Path(self.seal_dir)))
        elif op == "id":
            x = b.real[s[1]].__xpm__
            b.ids.append((s[1], x.raw_identifier.all.hex(), x.full_identifier.all.hex()))
        else:
            raise ValueError(op)

    def run(self, recipe, b=None):
        b = b or Built()
        for s in recipe["steps"]:
            self.step(s, b)
        return b


def all_ids(b, nids=None):
    """Raw and full identifiers of every (or the given) node, requested now, in the given order."""
    res = {}
    for nid in nids if nids is not None else list(b.real):
        x = b.real[nid].__xpm__
        res[nid] = (x.raw_identifier.all.hex(), x.full_identifier.all.hex())
    return res
