"""The harness's own description of the classes in xvmodels.zoo.

This table is written by hand from the *documentation* of experimaestro's annotations
(Param / Meta / Option / Constant / pathgenerator / Optional / defaults) and deliberately
shares no code with experimaestro: the reference signature encoder, the shadow model, the
type validator and the generators read only this table.  If experimaestro's processing of an
annotation changes (e.g. Path parameters stop being ignored), the real identifier departs
from the reference and the monitors fire.

Type expressions: "int" "float" "str" "bool" "path", ("enum", Name), ("cfg", ClassName),
("list", T), ("dict", T) (string keys), ("opt", T).
"""

MODULE = "xvmodels.zoo"


def F(x):
    """Recipe / shadow form of a float."""
    return {"$f": float(x).hex()}


def E(cls, name):
    return {"$e": [cls, name]}


class P:
    def __init__(self, type, default=None, ignored=False, generator=None, constant=False):
        self.type = type
        self.default = default  # shadow value or None
        self.optional = isinstance(type, tuple) and type[0] == "opt"
        self.base = type[1] if self.optional else type
        # Path-typed parameters are ignored by default (documentation: "the path where the index is stored")
        self.ignored = ignored or self.base == "path"
        self.generator = generator  # file name when generated
        self.constant = constant
        self.required = default is None and not self.optional and generator is None
        # a generated Param without default is "required" for experimaestro but never supplied by the user


def opt(t):
    return ("opt", t)


def lst(t):
    return ("list", t)


def dct(t):
    return ("dict", t)


def cfg(n):
    return ("cfg", n)


ENUMS = {"Color": ["RED", "GREEN", "BLUE"], "Shade": ["RED", "DARK"], "Level": ["LOW", "HIGH"], "Mode": ["A", "B"]}
# enumerations whose members are also ints / strings: the releases hash the member as that int / string (the type
# dispatch of the hasher reaches int and str before Enum), which the pinned identifiers record
ENUM_MIXIN = {"Level": ("int", {"LOW": 1, "HIGH": 2}), "Mode": ("str", {"A": "a", "B": "b"})}

_LEAF = {
    "i": P("int"),
    "f": P("float", default=F(1.5)),
    "s": P("str", default="s0"),
    "b": P("bool", default=False),
    "oi": P(opt("int")),
    "os": P(opt("str")),
    "e": P(("enum", "Color"), default=E("Color", "RED")),
    "e2": P(opt(("enum", "Shade"))),
    "od": P(opt("int"), default=7),
    "lv": P(opt(("enum", "Level"))),
    "md": P(("enum", "Mode"), default=E("Mode", "A")),
    "lvs": P(lst(("enum", "Level")), default=[]),
    "m": P("int", default=0, ignored=True),
    "o": P("str", default="opt", ignored=True),
    "p": P(opt("path"), ignored=True),
    "pp": P(opt("path")),
    "c": P("int", default=3, constant=True),
}

_TASKBASE = {
    "x": P("int"),
    "direct": P(opt(cfg("TaskT"))),
    "art": P(opt(cfg("Artifact"))),
    "lst": P(lst(cfg("TaskT")), default=[]),
    "arts": P(lst(cfg("Artifact")), default=[]),
    "dct": P(dct(cfg("TaskT")), default={"$d": {}}),
    "adct": P(dct(cfg("Artifact")), default={"$d": {}}),
    "holder": P(opt(cfg("Holder"))),
    "leaf": P(opt(cfg("Leaf"))),
    "node": P(opt(cfg("Node"))),
    "rec": P(opt(cfg("Rec"))),
    "gen": P(opt(cfg("Gen"))),
    "out": P("path", generator="result.txt"),
    "mode": P("str", default="ok", ignored=True),
    "hold": P("int", default=0, ignored=True),
}

# default of a config-typed parameter: {"$new": [class, kwargs]} (a fresh clone per owner)
SCHEMA = {
    "Leaf": {"bases": [], "task": False, "lw": False, "params": _LEAF},
    "LeafB": {"bases": ["Leaf"], "task": False, "lw": False, "params": {**_LEAF, "x": P("int", default=0)}},
    "Other": {"bases": [], "task": False, "lw": False, "params": {"i": P("int"), "s": P("str", default="s0")}},
    "Named": {"bases": [], "task": False, "lw": False, "params": {"v": P("int")}, "xpmid": "xvmodels.custom.named"},
    "NamedChild": {"bases": ["Named"], "task": False, "lw": False, "params": {"v": P("int"), "w": P("int", default=0)}},
    "Node": {
        "bases": [],
        "task": False,
        "lw": False,
        "params": {
            "named": P(opt(cfg("Named"))),
            "child": P(cfg("Leaf")),
            "opt": P(opt(cfg("Leaf"))),
            "items": P(lst(cfg("Leaf")), default=[]),
            "table": P(dct(cfg("Leaf")), default={"$d": {}}),
            "ints": P(lst("int"), default=[]),
            "strs": P(lst("str"), default=[]),
            "names": P(dct("str"), default={"$d": {}}),
            "counts": P(dct("int"), default={"$d": {}}),
            "grid": P(lst(lst("int")), default=[]),
            "dl": P(dct(lst(cfg("Leaf"))), default={"$d": {}}),
            "ld": P(lst(dct(cfg("Leaf"))), default=[]),
            "dd": P(dct(dct("int")), default={"$d": {}}),
            "mchild": P(opt(cfg("Leaf")), ignored=True),
            "mitems": P(lst(cfg("Leaf")), default=[], ignored=True),
            "dflt": P(cfg("Leaf"), default={"$new": ["Leaf", {"i": 7}]}),
            "dlist": P(lst("int"), default=[1, 2]),
            "ddict": P(dct("int"), default={"$d": {"a": 1}}),
        },
    },
    "Rec": {
        "bases": [],
        "task": False,
        "lw": False,
        "params": {
            "v": P("int"),
            "a": P(opt(cfg("Rec"))),
            "b": P(opt(cfg("Rec"))),
            "kids": P(lst(cfg("Rec")), default=[]),
            "named": P(dct(cfg("Rec")), default={"$d": {}}),
            "leaf": P(opt(cfg("Leaf"))),
        },
    },
    "GenLeaf": {"bases": [], "task": False, "lw": False, "params": {"w": P("int", default=0), "leafpath": P("path", generator="leaf.txt")}},
    "Gen": {
        "bases": [],
        "task": False,
        "lw": False,
        "params": {
            "dsub": P(cfg("GenLeaf"), default={"$new": ["GenLeaf", {}]}),
            "x": P("int"),
            "out": P("path", generator="out.txt"),
            "aux": P("path", generator="aux.bin", ignored=True),
            "dyn": P("path", generator="dyn.dat"),
            "sub": P(opt(cfg("Gen"))),
            "subs": P(lst(cfg("Gen")), default=[]),
            "named": P(dct(cfg("Gen")), default={"$d": {}}),
            "lds": P(lst(dct(cfg("Gen"))), default=[]),
            "dls": P(dct(lst(cfg("Gen"))), default={"$d": {}}),
            "dds": P(dct(dct(cfg("Gen"))), default={"$d": {}}),
        },
    },
    "Artifact": {"bases": [], "task": False, "lw": False, "params": {"v": P("int"), "note": P("str", default="n")}},
    "Holder": {
        "bases": [],
        "task": False,
        "lw": False,
        "params": {"t": P(opt(cfg("TaskT"))), "a": P(opt(cfg("Artifact"))), "ts": P(lst(cfg("TaskT")), default=[])},
    },
    "TaskBase": {"bases": [], "task": True, "lw": True, "params": _TASKBASE},
    "TaskT": {"bases": ["TaskBase"], "task": True, "lw": True, "params": _TASKBASE},
    "TaskO": {"bases": ["TaskBase"], "task": True, "lw": True, "params": _TASKBASE, "output": "Artifact"},
    "Pre": {"bases": [], "task": False, "lw": True, "params": {"k": P("int"), "art": P(opt(cfg("Artifact"))), "t": P(opt(cfg("TaskT")))}},
    "Init": {"bases": [], "task": False, "lw": True, "params": {"k": P("int"), "art": P(opt(cfg("Artifact")))}},
}


def type_id(cls):
    """Documented default: __module__.__qualname__, lower-cased; a string __xpmid__ declared by the class itself wins
    (a subclass without its own __xpmid__ falls back to the default)."""
    return SCHEMA[cls].get("xpmid") or f"{MODULE}.{cls}".lower()


def is_subclass(cls, base):
    if cls == base:
        return True
    return any(is_subclass(b, base) for b in SCHEMA[cls]["bases"])


def subclasses(base):
    return [c for c in SCHEMA if is_subclass(c, base)]
