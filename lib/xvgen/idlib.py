"""Helpers shared by the identifier monitors (C01-C03, C14, C20)."""
from . import build, shadow
from .schema import SCHEMA
from xvref.sig import RefEncoder


def shadow_of(recipe):
    sh = shadow.Shadow().run(recipe)
    return sh, RefEncoder(sh)


def nontrivial(recipe, sh):
    """>= 3 nodes and at least one of: shared node, cycle, container of configurations, task output."""
    if len(sh.nodes) < 3:
        return False
    refcount = {}
    container = False
    taskout = False
    for n in sh.nodes.values():
        if n.task is not None and n.task != n.nid:
            taskout = True
        for name, v in n.values.items():
            out = []
            sh.refs_in(v, out)
            for r in out:
                refcount[r] = refcount.get(r, 0) + 1
            if out and (isinstance(v, list) or (isinstance(v, dict) and "$d" in v)):
                container = True
    shared = any(c > 1 for c in refcount.values())
    cyc = any(sh.in_cycle(n) for n in sh.nodes)
    return shared or cyc or container or taskout


def features(recipe, sh):
    f = set()
    for n in sh.nodes.values():
        f.add("cls:" + n.cls)
        if n.meta is not None:
            f.add(f"meta:{n.meta}")
        if n.pre:
            f.add("pre")
        if n.init:
            f.add("init")
        if n.task is not None and n.task != n.nid:
            f.add("taskoutput")
    if any(sh.in_cycle(n) for n in sh.nodes):
        f.add("cycle")
    return f


def reference_ids(sh, ref, nids=None):
    return {nid: (ref.raw(nid).hex(), ref.full(nid).hex()) for nid in (nids if nids is not None else sh.nodes)}
