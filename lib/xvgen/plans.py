"""Seeded generator of Engine-B plans: DAG shape, how each edge is embedded in the parameters, exit codes,
tokens, duplicates, re-submissions, successive runs of the experiment, foreign token activity."""
import random

from xvengine.planrun import EMBED_O, EMBED_T, SINGLE


class PlanProfile:
    def __init__(self, **kw):
        self.max_jobs = 6
        self.p_edge = 0.45
        self.p_fail = 0.0
        self.p_resubmit = 0.0
        self.p_dup = 0.0
        self.tokens = 0  # max number of tokens
        self.p_token = 0.7
        self.foreign = 0.0
        self.twostep = 0.0
        self.multi_run = 0.0
        self.p_abort = 0.5
        self.two_tokens = 0.0
        self.p_clean = 0.0
        self.__dict__.update(kw)


def gen_plan(rng, prof):
    n = rng.randint(1, prof.max_jobs)
    shape = rng.choice(["random", "random", "chain", "diamond", "fan", "forest"])
    jobs = []
    cls = [rng.choice(["TaskT", "TaskO"]) for _ in range(n)]
    ntok = rng.randint(0, prof.tokens) if prof.tokens else 0
    if prof.tokens and rng.random() < 0.8:
        ntok = max(1, ntok)
    tokens = [{"total": rng.choice([1, 1, 2, 3, 3, 4])} for _ in range(ntok)]
    for j in range(n):
        deps = []
        if j > 0:
            if shape == "chain":
                ups = [j - 1]
            elif shape == "diamond":
                ups = [0] if j < n - 1 else list(range(1, n - 1)) or [0]
            elif shape == "fan":
                ups = [0] if rng.random() < 0.8 else []
            elif shape == "forest":
                ups = [rng.randrange(j)] if rng.random() < 0.5 else []
            else:
                ups = [u for u in range(j) if rng.random() < prof.p_edge]
            used = set()
            for u in ups:
                opts = [h for h in (EMBED_T if cls[u].startswith("TaskT") else EMBED_O) if not (h in SINGLE and h in used) and not (h.startswith("holder") and any(x.startswith("holder") for x in used))]
                if not opts:
                    continue
                how = rng.choice(opts)
                used.add(how)
                deps.append({"on": u, "how": how})
        jt = []
        for ti, tk in enumerate(tokens):
            if rng.random() < prof.p_token and (not jt or rng.random() < prof.two_tokens):
                jt.append({"tok": ti, "n": rng.randint(1, tk["total"])})
                if rng.random() < getattr(prof, "p_listener", 0.25):
                    jt[-1]["via"] = "listener"  # attached by the launcher's submit listener, not by add_dependencies
        codes = [0]
        if rng.random() < prof.p_fail:
            codes = [rng.choice([1, 3, 255])]
            if rng.random() < prof.p_resubmit:
                codes.append(rng.choice([0, 0, 2]))
                if codes[-1] != 0 and rng.random() < 0.5:
                    codes.append(0)
        if any(d["how"].startswith(("meta", "self_")) for d in deps):
            cls[j] += "M"  # the variant of the class that has Meta parameters for other jobs
        jobs.append({"x": j, "cls": cls[j], "deps": deps, "tokens": jt, "codes": codes})

    # a dependency carried by a pre-task attached to the output configuration of ANOTHER upstream task of the same job;
    # the carrier must be a task_outputs configuration that no other job of the plan receives (attaching the pre-task
    # changes what every receiver of that output depends on)
    if getattr(prof, "p_pre_on_out", 0.3):
        for j in range(n):
            deps = jobs[j]["deps"]
            if len(deps) < 2 or rng.random() >= getattr(prof, "p_pre_on_out", 0.3):
                continue
            carriers = [d for d in deps if d["how"] in ("art", "arts", "adct") and sum(1 for k in range(n) for e in jobs[k]["deps"] if e["on"] == d["on"]) == 1]
            if not carriers:
                continue
            c = rng.choice(carriers)
            others = [d for d in deps if d is not c and d["how"] not in ("explicit",)]
            if not others:
                continue
            o = rng.choice(others)
            o["how"] = "pre_on_out"
            o["carrier"] = c["on"]
            o["up_cls"] = cls[o["on"]]

    # submission order: a random topological order
    order = []
    remaining = list(range(n))
    while remaining:
        ready = [j for j in remaining if all(d["on"] in order for d in jobs[j]["deps"])]
        j = rng.choice(ready)
        order.append(j)
        remaining.remove(j)

    def down(f):
        res = []
        for j in range(n):
            if any(d["on"] == f or d["on"] in res for d in jobs[j]["deps"]) and j not in res:
                res.append(j)
        return res

    def fails_eventually(j, memo={}):
        return jobs[j]["codes"][0] != 0 or any(fails_eventually(d["on"]) for d in jobs[j]["deps"])

    actions = [["submit", j] for j in order]
    # duplicates of jobs that cannot fail
    if prof.p_dup:
        for j in order:
            if rng.random() < prof.p_dup and not fails_eventually(j):
                pos = actions.index(["submit", j])
                actions.insert(rng.randint(pos + 1, len(actions)), ["dup", j])
    # re-submissions: the failed job, then (in order) everything that was cancelled because of it
    resub = False
    for j in order:
        c = jobs[j]["codes"]
        if len(c) > 1:
            for _ in range(len(c) - 1):
                actions.append(["resubmit", j])
            if c[-1] == 0 and prof.p_dup and rng.random() < max(prof.p_dup, 0.5):
                # an equal task submitted once more after the re-submission that succeeds (while it waits, runs or is done)
                actions.append(["dup", j])
            if c[-1] == 0:
                for d in down(j):
                    if all(jobs[u]["codes"][-1] == 0 for u in range(n) if u == d or d in down(u)):
                        actions.append(["resubmit", d])
            resub = True

    runs = []
    if rng.random() < prof.multi_run and n >= 1:
        # an earlier run of the same experiment: a prefix of the plan, ended normally or aborted half-way
        late = getattr(prof, "abort_late", False)
        k = rng.randint(max(1, n - 1), n) if late else rng.randint(1, n)
        first = [["submit", j] for j in order[:k]]
        if rng.random() < prof.p_abort:
            # abort_late: the block raises after its last submissions, so that earlier jobs had time to be launched
            runs.append({"actions": first, "end": "exception", "abort_after": len(first) if late else rng.randint(1, len(first))})
            if late:
                runs[-1]["lazy_actions"] = 0.8
                runs[-1]["abort_delay"] = rng.randint(0, 5)
        else:
            runs.append({"actions": first, "end": "normal"})
    run = {"actions": actions, "end": "normal", "resubmitted": resub}
    if runs and getattr(prof, "p_clean", 0.0) and rng.random() < prof.p_clean:
        # between the two runs the user removed the results of a job that others depend on; its rerun may fail
        first = [a[1] for a in runs[0]["actions"]]
        cands = [j for j in first if any(d["on"] == j for k in range(n) for d in jobs[k]["deps"])] or first
        c = rng.choice(cands)
        run["clean_before"] = [c]
        if jobs[c]["codes"] == [0] and rng.random() < (0.95 if getattr(prof, "abort_late", False) else 0.6):
            jobs[c]["codes"] = [0, rng.choice([1, 3])]
    # a pre-task attached to another task's output refers to the task objects of the moment: once a job is submitted
    # again (after a failure, or in a later run) the carrier would still embed the former, failed submission.  The
    # embedding is therefore only kept in plans without failures and with a single run.
    if runs or any(j["codes"] != [0] for j in jobs):
        for j in jobs:
            for d in j["deps"]:
                if d["how"] == "pre_on_out":
                    d["how"] = "explicit"
                    d.pop("carrier", None)
                    d.pop("up_cls", None)
    # single-run plans: now and then a job whose process ends with status 0 without leaving the success marker
    # (a body calling os._exit(0)); the exit status of a child process is what decides DONE.  Own random stream, so
    # that the other choices of the plan stay what they were.
    if not runs:
        r2 = random.Random(rng.getrandbits(32) ^ 0x5EED)
        ok = [j for j in jobs if j["codes"] == [0]]
        if ok and r2.random() < 0.2:
            r2.choice(ok)["nomarker"] = True
    plan = {"jobs": jobs, "tokens": tokens, "runs": runs + [run]}
    if tokens and rng.random() < prof.foreign:
        t0 = tokens[0]["total"]
        plan["foreign"] = {"token": 0, "requests": [rng.randint(1, t0) for _ in range(3)], "max_held": rng.choice([1, 2]), "twostep": rng.random() < prof.twostep}
        run["foreign_ops"] = rng.randint(1, 6)
    return plan


def plan_features(plan):
    f = set()
    n = len(plan["jobs"])
    f.add(f"jobs:{n}")
    for j in plan["jobs"]:
        for d in j["deps"]:
            f.add("how:" + d["how"])
        if j["tokens"]:
            f.add(f"tokens:{len(j['tokens'])}")
        if any(t.get("via") == "listener" for t in j["tokens"]):
            f.add("token-via-listener")
        if j["codes"][0] != 0:
            f.add("fail")
        if len(j["codes"]) > 1:
            f.add("resubmit")
        if j.get("nomarker"):
            f.add("exit0-without-marker")
    if len(plan["runs"]) > 1:
        f.add("multirun:" + plan["runs"][0]["end"])
    if any(r.get("clean_before") for r in plan["runs"]):
        f.add("cleaned")
    if plan.get("foreign"):
        f.add("foreign" + (":twostep" if plan["foreign"].get("twostep") else ""))
    if any(a[0] == "dup" for r in plan["runs"] for a in r["actions"]):
        f.add("dup")
    for r in plan["runs"]:
        for i, a in enumerate(r["actions"]):
            if a[0] == "dup" and any(b == ["resubmit", a[1]] for b in r["actions"][:i]):
                f.add("dup-after-resubmit")
    return f


def nontrivial(plan):
    n = len(plan["jobs"])
    edges = sum(len(j["deps"]) for j in plan["jobs"])
    return n >= 2 and (edges >= 1 or any(j["tokens"] for j in plan["jobs"]))


def gen_history(rng, max_jobs=6, max_runs=6):
    """C16: a sequence of runs of one experiment name, each submitting a subset of a job pool and ending
    normally or by an exception raised in the block after a random number of submissions."""
    n = rng.randint(2, max_jobs)
    cls = [rng.choice(["TaskT", "TaskO"]) for _ in range(n)]
    jobs = []
    for j in range(n):
        deps = []
        if j > 0 and rng.random() < 0.4:
            u = rng.randrange(j)
            deps.append({"on": u, "how": rng.choice(["direct", "lst"]) if cls[u] == "TaskT" else rng.choice(["art", "arts"])})
        codes = [0] if rng.random() < 0.85 else [3, 0]
        jobs.append({"x": j, "cls": cls[j], "deps": deps, "tokens": [], "codes": codes})
    runs = []
    for r in range(rng.randint(2, max_runs)):
        subset = set()
        for j in range(n):
            if rng.random() < 0.55:
                subset.add(j)
        # close under dependencies
        changed = True
        while changed:
            changed = False
            for j in list(subset):
                for d in jobs[j]["deps"]:
                    if d["on"] not in subset:
                        subset.add(d["on"])
                        changed = True
        actions = [["submit", j] for j in sorted(subset)]
        if runs and rng.random() < 0.2:
            # a generate-only run of the same experiment (job files only): must leave index and backup alone
            runs.append({"actions": actions, "end": "normal", "mode": "generate"})
        elif rng.random() < 0.45:
            runs.append({"actions": actions, "end": "exception", "abort_after": rng.randint(0, len(actions))})
        else:
            runs.append({"actions": actions, "end": "normal"})
    return {"jobs": jobs, "tokens": [], "runs": runs, "check_orphans": True}
