"""Shadow model: executes a recipe on plain data, independently of experimaestro.

Recipe = {"steps": [...]} with JSON values:
    None, bool, int, str, {"$f": hex} float, {"$p": str} path, {"$e": [Enum, member]},
    {"$r": nid} configuration node, {"$o": nid} output of the submitted task nid,
    [..] list, {"$d": {key: value}} dict.
Steps:
    ["new", nid, cls, [[param, value], ...]]     (kwargs in the order given)
    ["set", nid, param, value]   ["meta", nid, flag]   ["tag", nid, name, value]
    ["pre", nid, [nid...]]       ["submit", nid, [init nid...]]   ["seal", nid]   ["id", nid]
Implicit nodes: "<nid>.<param>" (clone of a configuration default), "<nid>.out" (task output).
"""
from pathlib import PurePosixPath

from .schema import SCHEMA


class SNode:
    __slots__ = ("nid", "cls", "values", "meta", "pre", "init", "task", "tags", "sealed", "submitted", "implicit")

    def __init__(self, nid, cls):
        self.nid = nid
        self.cls = cls
        self.values = {}
        self.meta = None
        self.pre = []
        self.init = []
        self.task = None
        self.tags = {}
        self.sealed = False
        self.submitted = False
        self.implicit = False


def is_ref(v):
    return isinstance(v, dict) and "$r" in v


def is_float(v):
    return isinstance(v, dict) and "$f" in v


def fval(v):
    return float.fromhex(v["$f"])


class Shadow:
    def __init__(self):
        self.nodes = {}
        self.id_requests = []

    # ---- values
    def coerce(self, t, v):
        """Documented coercions: integral float -> int, int -> float, str -> path, anything -> bool."""
        if v is None:
            return None
        if isinstance(t, tuple):
            k = t[0]
            if k == "opt":
                return self.coerce(t[1], v)
            if k == "list":
                return [self.coerce(t[1], x) for x in v]
            if k == "dict":
                return {"$d": {key: self.coerce(t[1], x) for key, x in v["$d"].items()}}
            if k == "enum":
                return v
            if k == "cfg":
                if "$o" in v:
                    return {"$r": self.output_of(v["$o"])}
                return v
        if t == "float":
            if isinstance(v, (int, bool)):
                return {"$f": float(v).hex()}
            return v
        if t == "int":
            if is_float(v):
                return int(fval(v))
            return v
        if t == "bool":
            if is_float(v):
                return bool(fval(v))
            if isinstance(v, dict):
                if "$d" in v:
                    return bool(v["$d"])
                return True
            return bool(v)
        if t == "path":
            if isinstance(v, str):
                return {"$p": str(PurePosixPath(v))}
            return {"$p": str(PurePosixPath(v["$p"]))}
        return v

    def output_of(self, nid):
        n = self.nodes[nid]
        if SCHEMA[n.cls].get("output"):
            return f"{nid}.out"
        return nid

    def clone_default(self, owner, param, d):
        if isinstance(d, dict) and "$new" in d:
            cls, kwargs = d["$new"]
            nid = f"{owner}.{param}"
            self.new(nid, cls, list(kwargs.items()), implicit=True)
            return {"$r": nid}
        if isinstance(d, list):
            return [self.clone_default(owner, param, x) for x in d]
        if isinstance(d, dict) and "$d" in d:
            return {"$d": {k: self.clone_default(owner, param, x) for k, x in d["$d"].items()}}
        return d

    # ---- steps
    def new(self, nid, cls, kwargs, implicit=False):
        n = SNode(nid, cls)
        n.implicit = implicit
        self.nodes[nid] = n
        params = SCHEMA[cls]["params"]
        given = {k for k, _ in kwargs}
        for name, p in params.items():
            if name in given:
                continue
            if p.default is not None:
                n.values[name] = self.clone_default(nid, name, p.default)
            elif p.optional:
                n.values[name] = None
        for name, v in kwargs:
            n.values[name] = self.coerce(params[name].type, v)
        return n

    def apply(self, step):
        op = step[0]
        if op == "new":
            self.new(step[1], step[2], step[3])
        elif op == "set":
            n = self.nodes[step[1]]
            n.values[step[2]] = self.coerce(SCHEMA[n.cls]["params"][step[2]].type, step[3])
        elif op == "meta":
            self.nodes[step[1]].meta = step[2]
        elif op == "tag":
            self.nodes[step[1]].tags[step[2]] = step[3]
        elif op == "pre":
            self.nodes[step[1]].pre.extend(step[2])
        elif op == "submit":
            n = self.nodes[step[1]]
            n.init = list(step[2])
            n.submitted = True
            n.task = step[1]
            out = SCHEMA[n.cls].get("output")
            if out == "Artifact":
                o = self.new(f"{step[1]}.out", "Artifact", [["v", n.values["x"]]], implicit=True)
                o.task = step[1]
            for m in self.reachable(step[1], through_task=True):
                self.nodes[m].sealed = True
        elif op == "seal":
            for m in self.reachable(step[1], through_task=True):
                self.nodes[m].sealed = True
        elif op == "id":
            self.id_requests.append(step[1])
        else:
            raise ValueError(op)

    def run(self, recipe):
        for s in recipe["steps"]:
            self.apply(s)
        return self

    # ---- graph
    def refs_in(self, v, out):
        if v is None:
            return
        if isinstance(v, list):
            for x in v:
                self.refs_in(x, out)
        elif isinstance(v, dict):
            if "$r" in v:
                out.append(v["$r"])
            elif "$d" in v:
                for x in v["$d"].values():
                    self.refs_in(x, out)

    def children(self, nid, through_task=True):
        n = self.nodes[nid]
        out = []
        for name in SCHEMA[n.cls]["params"]:
            if name in n.values:
                self.refs_in(n.values[name], out)
        out.extend(n.pre)
        out.extend(n.init)
        if through_task and n.task is not None and n.task != nid:
            out.append(n.task)
        return out

    def reachable(self, nid, through_task=True):
        seen = []
        seenset = set()
        stack = [nid]
        while stack:
            x = stack.pop()
            if x in seenset:
                continue
            seenset.add(x)
            seen.append(x)
            stack.extend(reversed(self.children(x, through_task)))
        return seen

    def in_cycle(self, nid):
        """True when nid lies on a reference cycle through parameter values."""
        stack = list(self.param_children(nid))
        seen = set()
        while stack:
            x = stack.pop()
            if x == nid:
                return True
            if x in seen:
                continue
            seen.add(x)
            stack.extend(self.param_children(x))
        return False

    def param_children(self, nid):
        n = self.nodes[nid]
        out = []
        for name in SCHEMA[n.cls]["params"]:
            if name in n.values:
                self.refs_in(n.values[name], out)
        return out

    def has_cycle_below(self, nid):
        return any(self.in_cycle(m) for m in self.reachable(nid, through_task=False))
