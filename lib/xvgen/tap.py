"""Stream tap on HashComputer: records, per hasher instance, the byte chunks fed to sha256
(attached from the harness: no source hook)."""
import hashlib


class StreamTap:
    def __init__(self):
        self.records = []  # (id(config), tuple of ids of enclosing configs incl. itself, chunks, digest)
        self.installed = False

    def install(self):
        from experimaestro.core.objects import HashComputer

        if self.installed:
            return
        tap = self
        orig_init = HashComputer.__init__
        orig_update = HashComputer._hashupdate
        orig_identifier = HashComputer.identifier

        def __init__(self, config, config_path, *, version=None):
            orig_init(self, config, config_path, version=version)
            self._xv_chunks = []
            self._xv_path = tuple(config_path.config2index)

        def _hashupdate(self, data):
            self._xv_chunks.append(bytes(data))
            return orig_update(self, data)

        def identifier(self):
            r = orig_identifier(self)
            tap.records.append((id(self.config), self._xv_path, self._xv_chunks, r.main))
            return r

        HashComputer.__init__ = __init__
        HashComputer._hashupdate = _hashupdate
        HashComputer.identifier = identifier
        self._orig = (HashComputer, orig_init, orig_update, orig_identifier)
        self.installed = True

    def uninstall(self):
        if self.installed:
            H, a, b, c = self._orig
            H.__init__, H._hashupdate, H.identifier = a, b, c
            self.installed = False

    def clear(self):
        self.records = []


def digest_of(chunks):
    return hashlib.sha256(b"".join(chunks)).digest()
