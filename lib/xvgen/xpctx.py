"""Experiment contexts used by the pure (non-scheduling) monitors."""
import contextlib
import logging
import os
import sys
from pathlib import Path


def quiet():
    """Silence experimaestro's logging and cprint noise in workers."""
    logging.disable(logging.CRITICAL)
    sys._called_from_test = True


@contextlib.contextmanager
def stderr_to_devnull():
    fd = os.dup(2)
    dn = os.open(os.devnull, os.O_WRONLY)
    os.dup2(dn, 2)
    try:
        yield
    finally:
        os.dup2(fd, 2)
        os.close(fd)
        os.close(dn)


@contextlib.contextmanager
def dry_experiment(workdir: Path, name="xp", run_mode=None):
    from experimaestro import experiment
    from experimaestro.scheduler.workspace import RunMode

    os.environ.setdefault("XPM_WORKDIR", str(Path(workdir) / "_local"))
    xp = experiment(Path(workdir), name, run_mode=run_mode or RunMode.DRY_RUN)
    xp.__enter__()
    try:
        yield xp
    finally:
        # leave through the exception path: nothing to wait for in dry-run
        leave_experiment(xp)


def leave_experiment(xp):
    """Leave an experiment through its exception path and make sure its event-loop thread really ends: __exit__ calls
    loop.stop() from the caller's thread, which the loop thread only notices when something wakes it up; a harness
    that opens thousands of experiments in one process would otherwise accumulate one thread and three descriptors
    per experiment."""
    central = getattr(xp, "central", None)
    loop = central.loop if central is not None else None
    try:
        xp.__exit__(RuntimeError, None, None)
    finally:
        if loop is not None:
            try:
                loop.call_soon_threadsafe(lambda: None)
                central.join(2)
                if not central.is_alive():
                    loop.close()
            except Exception:
                pass
