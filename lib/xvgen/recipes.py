"""Seeded generator of configuration-graph recipes (see xvgen.shadow for the recipe format)."""
import copy

from .schema import ENUMS, SCHEMA, F, subclasses

KEYS = ["a", "b", "c", "k1", "key", "x", "items", "child", "zz", "A", "a_b", "n0", "d1/dev", "d2/dev"]  # the last two: identifiers with a separator and the same last component (dataset ids)
# printable characters most likely to confuse a concatenation; no control characters (C03 domain)
ALPHA = list("abcxyz019.:-_/\\'\" =,[]{}()#é漢😀") + ["child", "items", "s", "i", "ab", "ba"]
HOSTILE_INTS = [0, 1, -1, 2, 7, 3, 255, 256, 2**31, 2**63 - 1, -(2**63), 1234567]
HOSTILE_FLOATS = [0.5, -0.0, 0.0, 1.0, 2.0, float("nan"), float("inf"), float("-inf"), 1e-300, 1e300, 1.5, 0.1, -3.25]


class Profile:
    def __init__(self, **kw):
        self.max_nodes = 10
        self.max_depth = 4
        self.p_share = 0.35
        self.p_cycle = 0.3
        self.p_optional = 0.5
        self.p_meta = 0.15
        self.p_tag = 0.15
        self.p_pre = 0.25
        self.p_init = 0.3
        self.root_classes = ["Leaf", "LeafB", "Other", "Node", "Node", "Rec", "Rec", "Gen", "Holder", "TaskT", "TaskO", "TaskT"]
        self.tasks = True
        self.p_task_param = 1.0  # probability of filling an optional parameter that needs a submitted task
        self.control_chars = False
        self.__dict__.update(kw)


def _needs_task(t):
    if isinstance(t, tuple):
        if t[0] == "cfg":
            return SCHEMA[t[1]]["task"]
        return _needs_task(t[1])
    return False


class RecipeGen:
    def __init__(self, rng, profile=None):
        self.rng = rng
        self.p = profile or Profile()
        self.steps = []
        self.pool = {}  # cls -> [nid]
        self.submitted = []  # task nids
        self.count = 0
        self.cls_of = {}
        self.frozen = set()  # nodes that may already be sealed by a submit

    # ---- scalars
    def gen_int(self):
        r = self.rng
        return r.choice(HOSTILE_INTS) if r.random() < 0.3 else r.randint(-50, 50)

    def gen_float(self):
        r = self.rng
        x = r.choice(HOSTILE_FLOATS) if r.random() < 0.4 else round(r.uniform(-100, 100), r.choice([0, 1, 3]))
        return F(x)

    def gen_str(self):
        r = self.rng
        k = r.random()
        if k < 0.1:
            return ""
        if k < 0.15:
            return "".join(r.choice(ALPHA) for _ in range(r.randint(100, 300)))
        s = "".join(r.choice(ALPHA) for _ in range(r.randint(1, 6)))
        if self.p.control_chars and r.random() < 0.3:
            s += chr(r.randint(1, 12))
        return s

    def gen_key(self):
        return self.rng.choice(KEYS)

    def gen_value(self, t, depth):
        r = self.rng
        if isinstance(t, tuple):
            k = t[0]
            if k == "opt":
                return None if r.random() < 0.3 else self.gen_value(t[1], depth)
            if k == "list":
                n = r.choice([0, 1, 1, 2, 2, 3, 5])
                return [self.gen_value(t[1], depth) for _ in range(n)]
            if k == "dict":
                n = r.choice([0, 1, 1, 2, 3])
                keys = r.sample(KEYS, n)
                return {"$d": {key: self.gen_value(t[1], depth) for key in keys}}
            if k == "enum":
                return {"$e": [t[1], r.choice(ENUMS[t[1]])]}
            if k == "cfg":
                return self.gen_cfg(t[1], depth)
        if t == "int":
            return self.gen_int()
        if t == "float":
            return self.gen_float() if r.random() < 0.9 else self.gen_int()
        if t == "str":
            return self.gen_str()
        if t == "bool":
            return r.random() < 0.5
        if t == "path":
            # absolute or relative (a relative path must stay what the user wrote, wherever it is serialised)
            return {"$p": r.choice(["/", "/", ""]) + "/".join(r.choice(["data", "x", "model.bin", "a b", "é"]) for _ in range(r.randint(1, 3)))}
        raise ValueError(t)

    def gen_cfg(self, base, depth):
        r = self.rng
        if SCHEMA[base]["task"]:
            # a task-typed value must be a submitted task
            cands = [t for t in self.submitted if self.cls_of[t] in subclasses(base) and not SCHEMA[self.cls_of[t]].get("output")]
            if not cands:
                t = self.make_task(base if base != "TaskBase" else "TaskT", depth + 1, force_cls="TaskT")
                return {"$o": t}
            return {"$o": r.choice(cands)}
        if base == "Artifact" and self.p.tasks and r.random() < 0.6:
            cands = [t for t in self.submitted if SCHEMA[self.cls_of[t]].get("output")]
            if cands and r.random() < 0.6:
                return {"$o": r.choice(cands)}
            if self.count < self.p.max_nodes and depth < self.p.max_depth:
                return {"$o": self.make_task("TaskO", depth + 1, force_cls="TaskO")}
        classes = subclasses(base)
        cands = [n for c in classes for n in self.pool.get(c, [])]
        if cands and (r.random() < self.p.p_share or self.count >= self.p.max_nodes or depth >= self.p.max_depth):
            return {"$r": r.choice(cands)}
        cls = base if r.random() < 0.75 else r.choice(classes)
        return {"$r": self.make(cls, depth + 1)}

    # ---- nodes
    def new_id(self):
        self.count += 1
        return f"n{self.count}"

    def gen_kwargs(self, cls, depth):
        r = self.rng
        kwargs = []
        for name, p in SCHEMA[cls]["params"].items():
            if p.generator or p.constant:
                continue
            if not p.required and self.p.p_task_param < 1.0 and _needs_task(p.type) and r.random() > self.p.p_task_param:
                continue
            if p.required or r.random() < (self.p.p_optional if depth < self.p.max_depth else 0.15):
                # ignored list/dict of paths etc. are fine; Path values never reach the hasher
                kwargs.append([name, self.gen_value(p.type, depth)])
        r.shuffle(kwargs)
        return kwargs

    def make(self, cls, depth=0):
        nid = self.new_id()  # reserve the id first so that children get larger ids
        self.cls_of[nid] = cls
        kwargs = self.gen_kwargs(cls, depth)
        self.steps.append(["new", nid, cls, kwargs])
        r = self.rng
        # everything that modifies the node comes right after its creation and before the node can
        # be referenced by anything else (a later submit would seal it)
        if not SCHEMA[cls]["task"] and cls not in ("Pre", "Init") and r.random() < self.p.p_meta:
            self.steps.append(["meta", nid, r.choice([True, True, False])])
        if r.random() < self.p.p_tag:
            self.steps.append(["tag", nid, r.choice(["model", "lr", "mode"]), r.choice(["bm25", "a", 1, 0.5])])
        if r.random() < self.p.p_pre and cls not in ("Pre", "Init") and self.count < self.p.max_nodes + 2:
            pres = [self.make_pre(depth + 1) for _ in range(r.choice([1, 1, 2]))]
            if r.random() < 0.3:
                pres.append(pres[0])  # the same pre-task attached twice
            self.steps.append(["pre", nid, pres])
        self.pool.setdefault(cls, []).append(nid)
        return nid

    def make_pre(self, depth):
        r = self.rng
        cands = self.pool.get("Pre", [])
        if cands and r.random() < 0.4:
            return r.choice(cands)
        nid = self.new_id()
        self.cls_of[nid] = "Pre"
        kwargs = [["k", self.gen_int()]]
        if r.random() < 0.3:
            kwargs.append(["art", self.gen_value(("opt", ("cfg", "Artifact")), depth + 1)])
        self.steps.append(["new", nid, "Pre", kwargs])
        self.pool.setdefault("Pre", []).append(nid)
        return nid

    def make_init(self, depth):
        nid = self.new_id()
        self.cls_of[nid] = "Init"
        kwargs = [["k", self.gen_int()]]
        if self.rng.random() < 0.3:
            kwargs.append(["art", self.gen_value(("opt", ("cfg", "Artifact")), depth + 1)])
        self.steps.append(["new", nid, "Init", kwargs])
        self.pool.setdefault("Init", []).append(nid)
        return nid

    def make_task(self, base, depth, force_cls=None, submit=True):
        r = self.rng
        cls = force_cls or r.choice(["TaskT", "TaskO"])
        nid = self.make(cls, depth)
        # tasks are not shared as plain configuration values
        self.pool[cls].remove(nid)
        if submit:
            inits = []
            if r.random() < self.p.p_init:
                inits = [self.make_init(depth + 1) for _ in range(r.choice([1, 2]))]
            self.steps.append(["submit", nid, inits])
            self.submitted.append(nid)
            self.frozen.update(self.cls_of)
        return nid

    def add_cycles(self):
        """Close reference cycles among Rec nodes by assignment."""
        r = self.rng
        recs = [n for n in self.pool.get("Rec", []) if n not in self.frozen]
        if len(recs) < 1 or r.random() > self.p.p_cycle:
            return False
        done = False
        def link(a, b):
            kind = r.choice(["a", "b", "kids", "named"])
            if kind in ("a", "b"):
                self.steps.append(["set", a, kind, {"$r": b}])
            elif kind == "kids":
                self.steps.append(["set", a, "kids", [{"$r": b}] + ([{"$r": r.choice(recs)}] if r.random() < 0.5 else [])])
            else:
                self.steps.append(["set", a, "named", {"$d": {self.gen_key(): {"$r": b}}}])

        for _ in range(r.choice([1, 1, 2])):
            a = r.choice(recs)
            b = r.choice(recs)
            link(a, b)
            if r.random() < 0.6:
                link(b, a)  # guarantees a cycle (a self-loop when a is b)
            if r.random() < 0.3:
                c = r.choice(recs)
                link(b, c)
                link(c, a)
            done = True
        return done

    def generate(self, root_cls=None):
        r = self.rng
        cls = root_cls or r.choice(self.p.root_classes)
        if SCHEMA[cls]["task"]:
            root = self.make_task(cls, 0, force_cls=cls, submit=False)
            kind = "task"
        else:
            root = self.make(cls, 0)
            kind = "config"
        cyc = self.add_cycles() if kind == "config" else False
        return {"steps": self.steps, "root": root, "kind": kind, "cycles_added": cyc}


def generate(rng, profile=None, root_cls=None):
    return RecipeGen(rng, profile).generate(root_cls)


# ---------------------------------------------------------------- recipe transformations
def permute_orders(recipe, rng):
    """Same configuration, other keyword and dict-insertion orders."""
    r2 = copy.deepcopy(recipe)

    def shuf(v):
        if isinstance(v, list):
            return [shuf(x) for x in v]
        if isinstance(v, dict) and "$d" in v:
            items = list(v["$d"].items())
            rng.shuffle(items)
            return {"$d": {k: shuf(x) for k, x in items}}
        return v

    for s in r2["steps"]:
        if s[0] == "new":
            rng.shuffle(s[3])
            s[3] = [[k, shuf(v)] for k, v in s[3]]
        elif s[0] == "set":
            s[3] = shuf(s[3])
    return r2


def node_ids(recipe):
    return [s[1] for s in recipe["steps"] if s[0] == "new"]
