"""Shared plumbing of the /verif checks: sharded workers, verdicts, evidence, replays.

A check is a module `checks.cNN` exposing

    PROPERTY   "C18"
    LEVEL      "exploration" | "fault_enumeration"
    RULE       how cases are generated and what makes one non-trivial
    ASSUMPTIONS  list of strings
    SHARDS     {"quick": n, "thorough": n}
    MINIMUMS   {"quick": {counter: min}, "thorough": {...}}   (else INCONCLUSIVE)
    worker(ctx)            explores the cases of shard ctx.shard
    replay(ctx, payload)   re-executes one recorded case (optional)

Workers run as separate processes (subprocess.run with a timeout, never a Pool) and
stream JSONL records into a scratch directory on /dev/shm; the parent aggregates
them into /verif/evidence/<ID>.json.  Three-valued verdict:

    exit 0  held on everything explored, every deciding monitor reached its minimum
    exit 1  "VIOLATION property=<id> replay=<path>" for a witness no known finding explains
    exit 2  "INCONCLUSIVE property=<id> reason=..." (never prints VIOLATION)
"""
from __future__ import annotations

import hashlib
import importlib
import json
import os
import random
import shutil
import subprocess
import sys
import time
import traceback
from pathlib import Path

VERIF = Path(__file__).resolve().parents[1]
REPO = Path(os.environ.get("VERIF_REPO", "/repo"))
PYTHON = os.environ.get("VERIF_PYTHON", "/venv/bin/python")
SCRATCH_ROOT = Path(os.environ.get("VERIF_SCRATCH", "/dev/shm"))
NCPU = int(os.environ.get("VERIF_JOBS", str(os.cpu_count() or 4)))


def canon(obj) -> str:
    return json.dumps(obj, sort_keys=True, default=repr, separators=(",", ":"))


def h12(obj) -> str:
    return hashlib.sha256(canon(obj).encode()).hexdigest()[:16]


def child_env(extra=None, hashseed="0"):
    """Environment of a worker: repo sources first, then /verif/lib."""
    env = dict(os.environ)
    env["PYTHONPATH"] = f"{REPO}/src:{VERIF}/lib:{VERIF}"
    env["PYTHONDONTWRITEBYTECODE"] = "1"
    env["PYTHONHASHSEED"] = str(hashseed)
    env["VERIF_REPO"] = str(REPO)
    # keep experimaestro away from the user's settings and home
    env.setdefault("XPM_NO_SETTINGS", "1")
    if extra:
        env.update(extra)
    return env


class WorkerCtx:
    """What a check's worker(ctx) sees."""

    def __init__(self, prop, tier, seed, shard, nshards, outdir: Path):
        self.property = prop
        self.tier = tier
        self.base_seed = seed
        self.shard = shard
        self.nshards = nshards
        self.seed = seed * 10007 + shard
        self.rng = random.Random(self.seed)
        self.outdir = outdir
        self.scratch = outdir / f"w{shard}"
        self.scratch.mkdir(parents=True, exist_ok=True)
        # keep experimaestro away from the user's home and settings
        (self.scratch / "home").mkdir(exist_ok=True)
        os.environ["HOME"] = str(self.scratch / "home")
        os.environ["XPM_WORKDIR"] = str(self.scratch / "xpmlocal")
        self._out = open(outdir / f"shard{shard}.jsonl", "w")
        self.counters = {}
        self.hashes = set()
        self.nsamples = 0
        self.nviol = 0
        self.t0 = time.time()

    # -- emitters
    def _emit(self, rec):
        self._out.write(canon(rec) + "\n")
        self._out.flush()

    def count(self, name, n=1):
        self.counters[name] = self.counters.get(name, 0) + n

    def case(self, descriptor, nontrivial=True, sample=None, max_samples=3):
        """Record one explored case. `descriptor` identifies it (hashed for distinctness)."""
        self.count("evaluations")
        if nontrivial:
            hh = h12(descriptor)
            if hh not in self.hashes:
                self.hashes.add(hh)
        if self.nsamples < max_samples and (nontrivial or self.nsamples == 0):
            self.nsamples += 1
            self._emit({"t": "sample", "v": sample if sample is not None else descriptor})

    def distinct(self, key, label="distinct_extra"):
        """Extra distinctness sets (e.g. distinct traces)."""
        s = self.counters.setdefault("_set_" + label, None)
        if s is None:
            s = self.counters["_set_" + label] = set()
        s.add(h12(key))

    def violation(self, mechanism: str, message: str, witness, replay=None):
        """Report a violation. `mechanism` is matched against known_findings.json."""
        self.nviol += 1
        if self.nviol <= 40:
            self._emit(
                {
                    "t": "violation",
                    "mechanism": mechanism,
                    "message": message,
                    "witness": witness,
                    "replay": replay if replay is not None else witness,
                    "seed": self.seed,
                    "shard": self.shard,
                }
            )
        self.count("violations_raw")
        self.count("viol:" + mechanism)

    def crosscheck(self, key, value):
        """Values that must agree between all worker processes (different PYTHONHASHSEEDs)."""
        self._emit({"t": "cross", "k": key, "v": value, "shard": self.shard, "hashseed": os.environ.get("PYTHONHASHSEED")})
        self.count("crosschecks")

    def inconclusive(self, reason):
        self._emit({"t": "inconclusive", "reason": reason})

    def elapsed(self):
        return time.time() - self.t0

    def close(self):
        counters = {}
        sets = {}
        for k, v in self.counters.items():
            if k.startswith("_set_"):
                sets[k[5:]] = sorted(v)
            else:
                counters[k] = v
        self._emit({"t": "end", "counters": counters, "hashes": sorted(self.hashes), "sets": sets})
        self._out.close()
        shutil.rmtree(self.scratch, ignore_errors=True)


def load_known():
    p = VERIF / "known_findings.json"
    if not p.is_file():
        return {"findings": [], "fixed": []}
    return json.loads(p.read_text())


def run_worker(modname, tier, seed, shard, nshards, outdir):
    mod = importlib.import_module(modname)
    ctx = WorkerCtx(mod.PROPERTY, tier, seed, shard, nshards, Path(outdir))
    try:
        mod.worker(ctx)
    except BaseException:  # the worker itself failed: never a violation
        ctx.inconclusive("worker exception: " + traceback.format_exc()[-1500:])
        ctx.close()
        raise
    ctx.close()


def main_check(modname, tier, seed, replay=None):
    mod = importlib.import_module(modname)
    prop = mod.PROPERTY
    t0 = time.time()

    if replay:
        payload = json.loads(Path(replay).read_text())
        outdir = SCRATCH_ROOT / f"verif-{os.getpid()}-replay"
        outdir.mkdir(parents=True, exist_ok=True)
        ctx = WorkerCtx(prop, tier, payload.get("seed", seed), 0, 1, outdir)
        try:
            mod.replay(ctx, payload["replay"])
        finally:
            ctx.close()
            recs = [json.loads(l) for l in (outdir / "shard0.jsonl").read_text().splitlines()]
            shutil.rmtree(outdir, ignore_errors=True)
        viols = [r for r in recs if r["t"] == "violation"]
        for v in viols:
            print(f"REPLAY-VIOLATION property={prop} mechanism={v['mechanism']} {v['message']}")
        print(f"replay: {len(viols)} violation(s) reproduced")
        return 1 if viols else 0

    nshards = mod.SHARDS[tier]
    outdir = SCRATCH_ROOT / f"verif-{os.getpid()}-{prop}"
    if outdir.exists():
        shutil.rmtree(outdir)
    outdir.mkdir(parents=True)
    timeout = getattr(mod, "TIMEOUT", {"quick": 600, "thorough": 7200})[tier]

    procs = []
    pending = list(range(nshards))
    running = {}
    failed = []
    maxpar = min(NCPU, getattr(mod, "MAXPAR", NCPU))
    deadline = time.time() + timeout
    try:
        while pending or running:
            while pending and len(running) < maxpar:
                i = pending.pop(0)
                hs = getattr(mod, "HASHSEEDS", ["0"])
                env = child_env(hashseed=hs[i % len(hs)])
                log = open(outdir / f"shard{i}.log", "w")
                p = subprocess.Popen(
                    [PYTHON, "-X", "faulthandler", str(VERIF / "vcheck"), "--worker", modname, tier, str(seed), str(i), str(nshards), str(outdir)],
                    env=env,
                    stdout=log,
                    stderr=subprocess.STDOUT,
                    cwd=str(VERIF),
                    start_new_session=True,
                )
                running[i] = (p, log)
            time.sleep(0.05)
            for i, (p, log) in list(running.items()):
                rc = p.poll()
                if rc is not None:
                    log.close()
                    del running[i]
                    if rc != 0:
                        failed.append((i, rc))
            if time.time() > deadline:
                for i, (p, log) in running.items():
                    try:
                        os.killpg(p.pid, 9)
                    except Exception:
                        pass
                    log.close()
                    failed.append((i, "timeout"))
                running = {}
                pending = []
    finally:
        for i, (p, log) in running.items():
            try:
                os.killpg(p.pid, 9)
            except Exception:
                pass

    # ---- aggregate
    counters = {}
    hashes = set()
    sets = {}
    samples = []
    violations = []
    inconclusive = []
    cross = {}
    ended = 0
    for i in range(nshards):
        f = outdir / f"shard{i}.jsonl"
        if not f.is_file():
            continue
        for line in f.read_text().splitlines():
            try:
                r = json.loads(line)
            except Exception:
                continue
            if r["t"] == "sample" and len(samples) < 12:
                samples.append(r["v"])
            elif r["t"] == "violation":
                violations.append(r)
            elif r["t"] == "cross":
                cross.setdefault(r["k"], []).append((r["shard"], r["hashseed"], r["v"]))
            elif r["t"] == "inconclusive":
                inconclusive.append(r["reason"])
            elif r["t"] == "end":
                ended += 1
                for k, v in r["counters"].items():
                    counters[k] = counters.get(k, 0) + v
                hashes.update(r["hashes"])
                for k, v in r["sets"].items():
                    sets.setdefault(k, set()).update(v)
    for i, rc in failed:
        tail = ""
        lf = outdir / f"shard{i}.log"
        if lf.is_file():
            tail = lf.read_text()[-600:]
        inconclusive.append(f"shard {i} ended with {rc}: {tail}")
    if ended < nshards and not failed:
        inconclusive.append(f"only {ended}/{nshards} shards reported")

    ncross = 0
    for k, vals in cross.items():
        if len(vals) > 1:
            ncross += 1
            if len({canon(v[2]) for v in vals}) > 1:
                violations.append(
                    {
                        "t": "violation",
                        "mechanism": "cross-process-disagreement",
                        "message": f"processes disagree on {k}: {vals[:4]}",
                        "witness": {"key": k, "values": vals[:6]},
                        "replay": {"key": k, "values": vals[:6]},
                        "seed": seed,
                        "shard": -1,
                    }
                )
    counters["cross_keys_compared"] = ncross

    # ---- classify violations against known findings
    known = load_known()
    known_mech = {f["mechanism"]: f for f in known.get("findings", []) if f["property"] == prop}
    fresh = []
    known_hits = {}
    for v in violations:
        if v["mechanism"] in known_mech:
            known_hits.setdefault(v["mechanism"], []).append(v)
        else:
            fresh.append(v)
    # raw counts (beyond the 40 recorded per shard)
    for k, n in counters.items():
        if k.startswith("viol:"):
            mech = k[5:]
            if mech in known_mech:
                known_hits.setdefault(mech, [])

    # ---- minimums
    mins = getattr(mod, "MINIMUMS", {}).get(tier, {})
    for k, m in mins.items():
        got = len(hashes) if k == "distinct_nontrivial" else (len(sets[k]) if k in sets else counters.get(k, 0))
        if got < m:
            inconclusive.append(f"monitor counter {k}={got} below the minimum {m} for tier {tier}")

    wall = time.time() - t0
    cov = {
        "evaluations": counters.get("evaluations", 0),
        "distinct_nontrivial": len(hashes),
        "rule": mod.RULE,
        "samples": samples,
        "counters": {k: v for k, v in sorted(counters.items()) if not k.startswith("viol:")},
        "distinct_sets": {k: len(v) for k, v in sets.items()},
        "shards": nshards,
        "known_findings_observed": {k: counters.get("viol:" + k, len(v)) for k, v in known_hits.items()},
        "inconclusive_reasons": inconclusive[:10],
        "repo": str(REPO),
    }
    extra = getattr(mod, "evidence_extra", None)
    if extra:
        cov.update(extra(counters, sets))
    evidence = {
        "property_id": prop,
        "tier": tier,
        "seed": seed,
        "level": mod.LEVEL,
        "coverage": cov,
        "assumptions": mod.ASSUMPTIONS,
        "wall_s": round(wall, 2),
        "violations": len(fresh),
    }
    evdir = Path(os.environ.get("VERIF_EVIDENCE_DIR", VERIF / "evidence"))
    evdir.mkdir(parents=True, exist_ok=True)
    (evdir / f"{prop}.json").write_text(json.dumps(evidence, indent=1, default=repr) + "\n")

    # ---- verdict
    for mech in sorted(known_hits):
        f = known_mech[mech]
        print(f"KNOWN-FINDING: property={prop} {f['what']} [mechanism={mech}, seen {counters.get('viol:' + mech, 0)}x]")
    rc = 0
    if fresh:
        print("# violations by mechanism:", {k[5:]: v for k, v in sorted(counters.items()) if k.startswith("viol:")})
        rdir = Path(os.environ.get("VERIF_REPLAY_DIR", VERIF / "replays")) / prop
        rdir.mkdir(parents=True, exist_ok=True)
        seen = set()
        for v in fresh[:10]:
            key = h12([v["mechanism"], v["replay"]])
            if key in seen:
                continue
            seen.add(key)
            path = rdir / f"{key}.json"
            path.write_text(json.dumps(v, indent=1, default=repr))
            print(f"# {v['mechanism']}: {v['message'][:400]}")
            print(f"VIOLATION property={prop} replay={path}")
        rc = 1
    elif inconclusive:
        print(f"INCONCLUSIVE property={prop} reason={inconclusive[0][:600]!r}")
        rc = 2
    print(
        f"{prop} {tier} seed={seed}: evaluations={cov['evaluations']} distinct_nontrivial={len(hashes)} "
        f"violations={len(fresh)} known={sum(len(v) for v in known_hits.values())} wall={wall:.1f}s rc={rc}"
    )
    if os.environ.get("VERIF_KEEP") != "1":
        shutil.rmtree(outdir, ignore_errors=True)
    return rc
