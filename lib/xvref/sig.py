"""Independent reference encoder of configuration signatures and identifiers.

Written from the documented rules (docs/experiments/config.md: typed byte string, keys sorted,
defaults and ignored values removed) and the published byte layout; it works on the shadow
model (xvgen.shadow) and the hand-written schema only and shares no code with experimaestro.
It never caches, so any context- or history-dependence of the real identifier shows up as a
disagreement.
"""
import hashlib
import struct

from xvgen.schema import ENUM_MIXIN, MODULE, SCHEMA, type_id
from xvgen.shadow import fval, is_float, is_ref

OBJECT, INT, FLOAT, STR, PATH, NAME, NONE, LIST, TASK, DICT, ENUM, CYCLE, INIT = (bytes([i]) for i in range(13))


class RefEncoder:
    def __init__(self, shadow):
        self.sh = shadow
        self.nodes = shadow.nodes

    # ---- helpers mirroring the documented rules
    def node_ignored(self, v):
        """A configuration flagged meta is left out of any signature it appears in."""
        return is_ref(v) and bool(self.nodes[v["$r"]].meta)

    def remove_meta(self, v):
        if isinstance(v, list):
            return [x for x in v if not self.node_ignored(x)]
        if isinstance(v, dict) and "$d" in v:
            return {"$d": {k: x for k, x in v["$d"].items() if not self.node_ignored(x)}}
        return v

    def values_equal(self, a, b):
        """Equality used for 'set to its default': Python == on values; configurations are equal
        when they have the same class and all their parameter values are equal (deep)."""
        if a is None or b is None:
            return a is None and b is None
        if is_ref(a) or is_ref(b):
            if not (is_ref(a) and is_ref(b)):
                return False
            na, nb = self.nodes[a["$r"]], self.nodes[b["$r"]]
            if na.cls != nb.cls:
                return False
            for name in SCHEMA[na.cls]["params"]:
                if name in na.values:
                    if not self.values_equal(na.values[name], nb.values.get(name)):
                        return False
            return True
        if isinstance(a, list) or isinstance(b, list):
            if not (isinstance(a, list) and isinstance(b, list)) or len(a) != len(b):
                return False
            return all(self.values_equal(x, y) for x, y in zip(a, b))
        if isinstance(a, dict) and "$d" in a or isinstance(b, dict) and "$d" in b:
            if not (isinstance(a, dict) and isinstance(b, dict) and "$d" in a and "$d" in b):
                return False
            if set(a["$d"]) != set(b["$d"]):
                return False
            return all(self.values_equal(a["$d"][k], b["$d"][k]) for k in a["$d"])
        if is_float(a) or is_float(b):
            fa = fval(a) if is_float(a) else a
            fb = fval(b) if is_float(b) else b
            if isinstance(fa, (dict, str)) or isinstance(fb, (dict, str)):
                return False
            return fa == fb
        if isinstance(a, dict) or isinstance(b, dict):
            return a == b  # enums, paths
        if isinstance(a, str) != isinstance(b, str):
            return False
        return a == b

    # ---- encoding
    def update(self, out, v, path):
        if v is None:
            out.append(NONE)
        elif is_float(v):
            out.append(FLOAT)
            out.append(struct.pack("!d", fval(v)))
        elif isinstance(v, (bool, int)):
            out.append(INT)
            out.append(struct.pack("!q", int(v)))
        elif isinstance(v, str):
            out.append(STR)
            out.append(v.encode("utf-8"))
        elif isinstance(v, list):
            vals = [x for x in v if not self.node_ignored(x)]
            out.append(LIST)
            out.append(struct.pack("!d", len(vals)))
            for x in vals:
                self.update(out, x, path)
        elif isinstance(v, dict) and "$e" in v and v["$e"][0] in ENUM_MIXIN:
            kind, values = ENUM_MIXIN[v["$e"][0]]
            if kind == "int":
                out.append(INT)
                out.append(struct.pack("!q", values[v["$e"][1]]))
            else:
                out.append(STR)
                out.append(values[v["$e"][1]].encode("utf-8"))
        elif isinstance(v, dict) and "$e" in v:
            out.append(ENUM)
            out.append(f"{MODULE}.{v['$e'][0]}:{v['$e'][1]}".encode("utf-8"))
        elif isinstance(v, dict) and "$d" in v:
            out.append(DICT)
            for k in sorted(v["$d"]):
                x = v["$d"][k]
                if self.node_ignored(x):
                    continue
                self.update(out, k, path)
                self.update(out, x, path)
        elif is_ref(v):
            out.append(OBJECT)
            nid = v["$r"]
            if nid in path:
                out.append(CYCLE)
                out.append(struct.pack("!q", len(path) - path.index(nid)))
            else:
                out.append(self.raw(nid, path))
        else:
            raise NotImplementedError(f"value outside the hashed domain: {v!r}")

    def included(self, nid):
        """(name, value) pairs that take part in the signature of node nid, sorted by name."""
        n = self.nodes[nid]
        res = []
        for name in sorted(SCHEMA[n.cls]["params"]):
            p = SCHEMA[n.cls]["params"][name]
            v = n.values.get(name)
            if p.ignored:
                # ignored ... unless the value is a configuration explicitly flagged meta=False
                if not (is_ref(v) and self.nodes[v["$r"]].meta is False):
                    continue
            if p.generator:
                continue
            if not p.constant:
                if p.default is None and not p.required and v is None:
                    continue
                if p.default is not None and self.default_equal(nid, name, p, v):
                    continue
            if self.node_ignored(v):
                continue
            res.append((name, v))
        return res

    def default_equal(self, nid, name, p, v):
        d = p.default
        if isinstance(d, dict) and "$new" in d:
            # compare with a pristine instance of the default configuration
            cls, kwargs = d["$new"]
            if not is_ref(v):
                return False
            other = self.nodes[v["$r"]]
            if other.cls != cls:
                return False
            pristine = {}
            for pn, pp in SCHEMA[cls]["params"].items():
                if pn in kwargs:
                    pristine[pn] = self.sh.coerce(pp.type, kwargs[pn])
                elif pp.default is not None:
                    pristine[pn] = pp.default
                elif pp.optional:
                    pristine[pn] = None
            for pn, pv in pristine.items():
                if not self.values_equal(pv, other.values.get(pn)):
                    return False
            return True
        return self.values_equal(d, self.remove_meta(v))

    def stream(self, nid, path=()):
        """Byte chunks hashed for node nid when reached through `path` (tuple of enclosing nodes)."""
        n = self.nodes[nid]
        path2 = tuple(path) + (nid,)
        out = [OBJECT]
        if n.task is not None and n.task != nid:
            out.append(TASK)
            self.update(out, {"$r": n.task}, path2)
        out.append(type_id(n.cls).encode("utf-8"))
        for name, v in self.included(nid):
            self.update(out, name, path2)
            out.append(NAME)
            self.update(out, v, path2)
        return out

    def raw(self, nid, path=()):
        return hashlib.sha256(b"".join(self.stream(nid, path))).digest()

    def collected_pretasks(self, nid):
        """Pre-tasks of every configuration reachable from nid (values, pre/init tasks, producing tasks)."""
        res = []
        for m in self.sh.reachable(nid, through_task=True):
            for p in self.nodes[m].pre:
                if p not in res:
                    res.append(p)
        return res

    def full_stream(self, nid):
        n = self.nodes[nid]
        chunks = [self.raw(nid)]
        chunks.extend(sorted(self.raw(p) for p in self.collected_pretasks(nid)))
        if n.init:
            chunks.append(INIT)
            chunks.extend(self.raw(i) for i in n.init)
        return chunks

    def full(self, nid):
        return hashlib.sha256(b"".join(self.full_stream(nid))).digest()

    # ---- structured signature (for the collision monitors of C03)
    def sigvalue(self, v, path):
        if v is None or isinstance(v, (bool, int, str)):
            # bool is hashed as the integer it equals
            return ["i", int(v)] if isinstance(v, (bool, int)) else (["s", v] if isinstance(v, str) else None)
        if is_float(v):
            return ["f", struct.pack("!d", fval(v)).hex()]
        if isinstance(v, list):
            return ["l"] + [self.sigvalue(x, path) for x in v if not self.node_ignored(x)]
        if "$e" in v:
            return ["e"] + list(v["$e"])
        if "$d" in v:
            return ["d"] + [[k, self.sigvalue(v["$d"][k], path)] for k in sorted(v["$d"]) if not self.node_ignored(v["$d"][k])]
        if "$r" in v:
            nid = v["$r"]
            if nid in path:
                return ["cycle", len(path) - path.index(nid)]
            return self.sigtree(nid, path)
        raise NotImplementedError(repr(v))

    def sigtree(self, nid, path=()):
        n = self.nodes[nid]
        path2 = tuple(path) + (nid,)
        task = None
        if n.task is not None and n.task != nid:
            task = self.sigvalue({"$r": n.task}, path2)
        return ["cfg", type_id(n.cls), task, [[name, self.sigvalue(v, path2)] for name, v in self.included(nid)]]

    def fullsig(self, nid):
        n = self.nodes[nid]
        pre = sorted((self.raw(p).hex() for p in self.collected_pretasks(nid)))
        return ["full", self.sigtree(nid), pre, [self.sigtree(i) for i in n.init]]
