"""Type-directed decoder of the hashed byte stream of one configuration (C03).

Enumerates *all* parses of the stream under the declared parameter types of the node's class
(domain of C03: text without control characters, so a string ends at the first byte < 0x20).
Nested configurations appear as 32-byte digests; they are opaque atoms (assumption: sha256 is
collision- and structure-free), replaced by placeholders using the tap's chunk boundaries so that
a digest byte can never be mistaken for a tag.
"""
import struct

from xvgen.schema import ENUM_MIXIN, MODULE, SCHEMA, type_id


def items_of(chunks):
    """Flatten chunks into a list of ints and ("D", hex) digest placeholders."""
    out = []
    prev = None
    for c in chunks:
        if prev == b"\x00" and len(c) == 32:
            out.append(("D", c.hex()))
        else:
            out.extend(c)
        prev = c
    return out


class Decoder:
    def __init__(self, items, limit=64):
        self.s = items
        self.n = len(items)
        self.limit = limit
        self.steps = 0

    def byte(self, i):
        return self.s[i] if i < self.n and isinstance(self.s[i], int) else None

    def take8(self, i):
        if i + 8 > self.n:
            return None
        b = self.s[i : i + 8]
        if not all(isinstance(x, int) for x in b):
            return None
        return bytes(b)

    def text(self, i):
        """Text starting at i: extends to the first item that is a tag (< 0x20), a digest or the end."""
        j = i
        while j < self.n and isinstance(self.s[j], int) and self.s[j] >= 0x20:
            j += 1
        try:
            return bytes(self.s[i:j]).decode("utf-8"), j
        except UnicodeDecodeError:
            return None, j

    # generators of (value, next position)
    def value(self, i, t):
        self.steps += 1
        if isinstance(t, tuple):
            k = t[0]
            if k == "opt":
                if self.byte(i) == 0x06:
                    yield None, i + 1
                yield from self.value(i, t[1])
                return
            if k == "list":
                if self.byte(i) != 0x07:
                    return
                b = self.take8(i + 1)
                if b is None:
                    return
                (n,) = struct.unpack("!d", b)
                if n != int(n) or n < 0 or n > 10000:
                    return
                yield from self.seq(i + 9, t[1], int(n), [])
                return
            if k == "dict":
                if self.byte(i) != 0x09:
                    return
                yield from self.entries(i + 1, t[1], [])
                return
            if k == "enum" and t[1] in ENUM_MIXIN:
                kind, values = ENUM_MIXIN[t[1]]
                back = {v: name for name, v in values.items()}
                for v, j in self.value(i, kind):
                    if v[1] in back:
                        yield ["e", t[1], back[v[1]]], j
                return
            if k == "enum":
                if self.byte(i) != 0x0A:
                    return
                txt, j = self.text(i + 1)
                if txt is None or ":" not in txt:
                    return
                head, member = txt.rsplit(":", 1)
                if head.startswith(MODULE + "."):
                    yield ["e", head[len(MODULE) + 1 :], member], j
                return
            if k == "cfg":
                if self.byte(i) != 0x00:
                    return
                if i + 1 < self.n and isinstance(self.s[i + 1], tuple):
                    yield ["digest", self.s[i + 1][1]], i + 2
                elif self.byte(i + 1) == 0x0B:
                    b = self.take8(i + 2)
                    if b is not None:
                        yield ["cycle", struct.unpack("!q", b)[0]], i + 10
                return
        if t in ("int", "bool"):
            if self.byte(i) == 0x01:
                b = self.take8(i + 1)
                if b is not None:
                    yield ["i", struct.unpack("!q", b)[0]], i + 9
            return
        if t == "float":
            if self.byte(i) == 0x02:
                b = self.take8(i + 1)
                if b is not None:
                    yield ["f", b.hex()], i + 9
            return
        if t == "str":
            if self.byte(i) == 0x03:
                txt, j = self.text(i + 1)
                if txt is not None:
                    yield ["s", txt], j
            return
        raise ValueError(t)

    def seq(self, i, t, n, acc):
        if n == 0:
            yield ["l"] + acc, i
            return
        for v, j in self.value(i, t):
            yield from self.seq(j, t, n - 1, acc + [v])

    def entries(self, i, t, acc):
        # a dictionary has no terminator: stopping here is always a candidate
        yield ["d"] + acc, i
        if self.byte(i) == 0x03:
            key, j = self.text(i + 1)
            if key is not None:
                for v, k in self.value(j, t):
                    yield from self.entries(k, t, acc + [[key, v]])

    def args(self, i, cls, acc):
        if i == self.n:
            yield acc
            return
        if self.byte(i) != 0x03:
            return
        name, j = self.text(i + 1)
        if name is None or self.byte(j) != 0x05:
            return
        p = SCHEMA[cls]["params"].get(name)
        if p is None:
            return
        for v, k in self.value(j + 1, p.type):
            yield from self.args(k, cls, acc + [[name, v]])

    def node(self, cls):
        """All parses of the whole stream as a configuration of class cls."""
        res = []
        if self.byte(0) != 0x00:
            return res
        starts = []
        if self.byte(1) == 0x08:
            for v, j in self.value(2, ("cfg", "?")):
                starts.append((v, j))
        starts.append((None, 1))
        tid = type_id(cls).encode("utf-8")
        for task, j in starts:
            if bytes(x for x in self.s[j : j + len(tid)] if isinstance(x, int)) != tid or j + len(tid) > self.n:
                continue
            for a in self.args(j + len(tid), cls, []):
                res.append(["cfg", type_id(cls), task, a])
                if len(res) >= self.limit:
                    return res
        return res


def shallow_signature(ref, nid, path=()):
    """The harness's canonical signature of node nid in the decoder's shape (nested configs as digests)."""
    sh = ref.sh
    n = sh.nodes[nid]
    path2 = tuple(path) + (nid,)

    def val(v):
        if v is None:
            return None
        if isinstance(v, (bool, int)):
            return ["i", int(v)]
        if isinstance(v, str):
            return ["s", v]
        if isinstance(v, list):
            return ["l"] + [val(x) for x in v if not ref.node_ignored(x)]
        if "$f" in v:
            return ["f", struct.pack("!d", float.fromhex(v["$f"])).hex()]
        if "$e" in v:
            return ["e"] + list(v["$e"])
        if "$d" in v:
            return ["d"] + [[k, val(v["$d"][k])] for k in sorted(v["$d"]) if not ref.node_ignored(v["$d"][k])]
        if "$r" in v:
            if v["$r"] in path2:
                return ["cycle", len(path2) - path2.index(v["$r"])]
            return ["digest", ref.raw(v["$r"], path2).hex()]
        raise ValueError(v)

    task = None
    if n.task is not None and n.task != nid:
        task = val({"$r": n.task})
    return ["cfg", type_id(n.cls), task, [[name, val(v)] for name, v in ref.included(nid)]]
