"""Isomorphism checkers between a configured graph and (a) a reloaded configuration graph,
(b) runtime objects, (c) the JSON echo written by a real task process (C12, C13)."""
import struct
from enum import Enum
from pathlib import Path

MISSING = "<<unset>>"


def scalar_equal(a, b):
    if isinstance(a, float) and isinstance(b, float):
        return struct.pack("!d", a) == struct.pack("!d", b)  # bit-wise: -0.0 and nan are values too
    if type(a) is not type(b):
        # Path flavours are all PosixPath here; bool vs int must not be confused
        return False
    return a == b


def base_class(obj):
    """The user's configuration class behind a configuration object (X.XPMConfig) or a runtime object (X.XPMValue)."""
    for c in type(obj).__mro__:
        if c.__qualname__.endswith((".XPMValue", ".XPMConfig")) or c.__name__ in ("TypeConfig", "XPMValue"):
            continue
        return c
    return type(obj)


class Iso:
    """Simultaneous traversal building a bijection between configuration nodes and their images."""

    def __init__(self, kind):
        self.kind = kind  # "config" | "instance"
        self.fwd = {}  # id(orig) -> image
        self.bwd = {}  # id(image) -> orig
        self.diffs = []
        self.pairs = []
        self.keep = []

    def diff(self, path, msg):
        if len(self.diffs) < 20:
            self.diffs.append(f"{path}: {msg}")

    def image_values(self, img, name):
        if self.kind == "config":
            return img.__xpm__.values.get(name, MISSING)
        return img.__dict__.get(name, MISSING)

    def value(self, path, a, b):
        from experimaestro import Config

        if isinstance(a, Config):
            self.node(path, a, b)
        elif isinstance(a, list):
            if not isinstance(b, list) or len(a) != len(b):
                self.diff(path, f"list {len(a) if isinstance(a, list) else a!r} became {b!r}"[:300])
                return
            for i, (x, y) in enumerate(zip(a, b)):
                self.value(f"{path}[{i}]", x, y)
        elif isinstance(a, dict):
            if not isinstance(b, dict) or list(sorted(a)) != list(sorted(b)):
                self.diff(path, f"dict keys {sorted(a)} became {sorted(b) if isinstance(b, dict) else b!r}"[:300])
                return
            for k in a:
                self.value(f"{path}[{k!r}]", a[k], b[k])
        elif a is None or b is None:
            if a is not b:
                self.diff(path, f"{a!r} became {b!r}")
        elif isinstance(a, Enum):
            if a is not b:
                self.diff(path, f"enum {a!r} became {b!r}")
        else:
            if not scalar_equal(a, b):
                self.diff(path, f"{a!r} ({type(a).__name__}) became {b!r} ({type(b).__name__})")

    def node(self, path, a, b):
        from experimaestro import Config

        if not isinstance(b, Config):
            self.diff(path, f"configuration became {b!r}"[:200])
            return
        if id(a) in self.fwd or id(b) in self.bwd:
            if self.fwd.get(id(a)) is not b or self.bwd.get(id(b)) is not a:
                self.diff(path, "aliasing changed: shared stays shared and distinct stays distinct is violated")
            return
        self.fwd[id(a)] = b
        self.bwd[id(b)] = a
        self.keep.extend([a, b])
        self.pairs.append((path, a, b))
        ta = type(a).__xpmtype__
        if base_class(a) is not base_class(b):
            self.diff(path, f"class {base_class(a).__qualname__} became {base_class(b).__qualname__}")
            return
        for name in ta.arguments:
            va = a.__xpm__.values.get(name, MISSING)
            vb = self.image_values(b, name)
            if va is MISSING or vb is MISSING:
                if not (va is MISSING and vb is MISSING):
                    self.diff(f"{path}.{name}", f"{'unset' if va is MISSING else 'set'} became {'unset' if vb is MISSING else 'set'}")
                continue
            self.value(f"{path}.{name}", va, vb)
        if self.kind == "config":
            xa, xb = a.__xpm__, b.__xpm__
            if xa.meta != xb.meta:
                self.diff(path, f"meta flag {xa.meta!r} became {xb.meta!r}")
            if len(xa.pre_tasks) != len(xb.pre_tasks):
                self.diff(path, f"{len(xa.pre_tasks)} pre-tasks became {len(xb.pre_tasks)}")
            else:
                for i, (p, q) in enumerate(zip(xa.pre_tasks, xb.pre_tasks)):
                    self.node(f"{path}.pre[{i}]", p, q)
            if len(xa.init_tasks) != len(xb.init_tasks):
                self.diff(path, f"{len(xa.init_tasks)} init tasks became {len(xb.init_tasks)}")
            else:
                for i, (p, q) in enumerate(zip(xa.init_tasks, xb.init_tasks)):
                    self.node(f"{path}.init[{i}]", p, q)
            ta_, tb_ = xa.task, xb.task
            if (ta_ is None) != (tb_ is None):
                self.diff(path, f"producing task {'set' if ta_ is not None else 'unset'} became {'set' if tb_ is not None else 'unset'}")
            elif ta_ is not None:
                self.node(f"{path}.task", ta_, tb_)


def compare_configs(orig, loaded):
    iso = Iso("config")
    iso.value("root", orig, loaded)
    return iso


def compare_instances(orig, runtime):
    iso = Iso("instance")
    iso.value("root", orig, runtime)
    return iso


# ---------------------------------------------------------------- echo written by a real task process
def compare_echo(orig, echo):
    """orig: configured root; echo: xvmodels.zoo.echo_value dump of the runtime task."""
    from experimaestro import Config

    diffs = []
    fwd, bwd = {}, {}

    def diff(path, msg):
        if len(diffs) < 20:
            diffs.append(f"{path}: {msg}")

    table = {}

    def index(e):
        if isinstance(e, list):
            for x in e:
                index(x)
        elif isinstance(e, dict):
            if "$obj" in e:
                table[e["$obj"]] = e
                for x in e["fields"].values():
                    index(x)
            elif "$dict" in e:
                for x in e["$dict"].values():
                    index(x)

    index(echo)

    def val(path, a, e):
        if isinstance(a, Config):
            if not isinstance(e, dict) or not ("$obj" in e or "$ref" in e):
                diff(path, f"configuration echoed as {e!r}"[:200])
                return
            oid = e.get("$obj", e.get("$ref"))
            e = table.get(oid, e)  # the echo defines each object once, wherever the dump met it first
            if id(a) in fwd or oid in bwd:
                if fwd.get(id(a)) != oid or bwd.get(oid) != id(a):
                    diff(path, "aliasing changed in the job process")
                return
            fwd[id(a)] = oid
            bwd[oid] = id(a)
            if "$obj" not in e:
                diff(path, "reference to an object that was never echoed")
                return
            if e["$cls"] != base_class(a).__qualname__:
                diff(path, f"class {base_class(a).__qualname__} echoed as {e['$cls']}")
                return
            for name in type(a).__xpmtype__.arguments:
                va = a.__xpm__.values.get(name, MISSING)
                if va is MISSING:
                    if name in e["fields"]:
                        diff(f"{path}.{name}", "unset parameter has a value in the job process")
                    continue
                if name not in e["fields"]:
                    diff(f"{path}.{name}", "configured parameter is absent in the job process")
                    continue
                val(f"{path}.{name}", va, e["fields"][name])
        elif isinstance(a, list):
            if not isinstance(e, list) or len(e) != len(a):
                diff(path, f"list echoed as {e!r}"[:200])
                return
            for i, (x, y) in enumerate(zip(a, e)):
                val(f"{path}[{i}]", x, y)
        elif isinstance(a, dict):
            if not isinstance(e, dict) or "$dict" not in e or sorted(e["$dict"]) != sorted(a):
                diff(path, f"dict echoed as {e!r}"[:200])
                return
            for k in a:
                val(f"{path}[{k!r}]", a[k], e["$dict"][k])
        elif isinstance(a, Path):
            if e != {"$path": str(a)}:
                diff(path, f"path {a} echoed as {e!r}")
        elif isinstance(a, Enum):
            if e != {"$enum": f"{type(a).__qualname__}.{a.name}"}:
                diff(path, f"enum {a!r} echoed as {e!r}")
        elif isinstance(a, float):
            if e != {"$float": a.hex()}:
                diff(path, f"float {a!r} echoed as {e!r}")
        else:
            if type(a) is not type(e) or a != e:
                diff(path, f"{a!r} echoed as {e!r}")

    val("root", orig, echo)
    return diffs
