"""Class edits for C02: every class of xvmodels.zoo extended with new defaulted / Meta / optional /
generated parameters under the same type identifier (explicit __xpmid__).  Identifiers of all
configurations built with these classes must equal those built with the original classes."""
from pathlib import Path
from typing import List, Optional

from experimaestro import Annotated, Meta, Option, Param, default, field, help, pathgenerator

from . import zoo
from .zoo import Color, Level, Mode, Shade  # noqa: F401  (same enum classes: the enum's module is part of the signature)


# classes that serve as the default value of a configuration-typed parameter (Node.dflt, Gen.dsub) do not get the
# generated integer: it would trigger known finding cfg-default-unequal-after-generation in every class-edit pair
_NO_GENERATED_INT = ("Leaf", "LeafB", "GenLeaf")


def _extend(base):
    ns = {
        "__module__": __name__,
        "__qualname__": base.__name__,
        "__xpmid__": base.__dict__["__xpmid__"] if isinstance(base.__dict__.get("__xpmid__"), str) else f"xvmodels.zoo.{base.__name__.lower()}",
        "__annotations__": {
            "aa_first": Param[str],
            "zz_d": Param[int],
            "zz_f": Param[float],
            "zz_m": Meta[str],
            "zz_o": Param[Optional[int]],
            "zz_l": Param[List[int]],
            "zz_g": Annotated[Path, pathgenerator("zz.txt")],
            # ignored parameters declared together with a second annotation (documented forms)
            # a generated parameter that is neither a path nor Meta: filled when the configuration is sealed
            "zz_gi": Param[int],
            "zz_am": Annotated[Meta[int], default(3)],
            "zz_ao": Annotated[Option[str], help("an option with a help text")],
        },
        "aa_first": "q",
        "zz_d": 5,
        "zz_f": 0.25,
        "zz_m": "x",
        "zz_l": [],
        "zz_ao": "o",
        "zz_gi": field(default_factory=lambda: 1234),
    }
    if base.__name__ in _NO_GENERATED_INT:
        del ns["__annotations__"]["zz_gi"]
        del ns["zz_gi"]
    return type(base.__name__, (base,), ns)


Leaf = _extend(zoo.Leaf)
LeafB = type(
    "LeafB",
    (Leaf,),
    {"__module__": __name__, "__qualname__": "LeafB", "__xpmid__": "xvmodels.zoo.leafb", "__annotations__": {"x": Param[int], "zz_b": Param[int]}, "x": 0, "zz_b": 1},
)
Other = _extend(zoo.Other)
Named = _extend(zoo.Named)
NamedChild = type("NamedChild", (Named,), {"__module__": __name__, "__qualname__": "NamedChild", "__xpmid__": "xvmodels.zoo.namedchild", "__annotations__": {"w": Param[int]}, "w": 0})
Node = _extend(zoo.Node)
# the default of a configuration-typed parameter is an instance of the edited class
Node.__annotations__["dflt"] = Param[Leaf]
Node.dflt = Leaf(i=7)
Rec = _extend(zoo.Rec)
GenLeaf = _extend(zoo.GenLeaf)
Gen = _extend(zoo.Gen)
Gen.__annotations__["dsub"] = Param[GenLeaf]
Gen.dsub = GenLeaf()
Artifact = _extend(zoo.Artifact)
Holder = _extend(zoo.Holder)
TaskBase = _extend(zoo.TaskBase)
TaskT = _extend(zoo.TaskT)
TaskO = _extend(zoo.TaskO)
Pre = _extend(zoo.Pre)
Init = _extend(zoo.Init)
