"""Call log filled by the instrumented model classes (C13).  None = disabled."""
import os

LOG = [] if os.environ.get("XV_CALLLOG") else None


def record(event, obj, extra=None):
    if LOG is not None:
        LOG.append((event, id(obj), type(obj).__qualname__, extra))
