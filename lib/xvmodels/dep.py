"""Deprecated / replacement class pairs for C20.

The old classes are deprecated only when XV_DEPRECATE=1 is set at import: phase 1 of the check (recording job
directories under the *former* identifiers) runs without it, phases 2 and 3 (identifier equality, repair) with it,
each in fresh processes because deprecation cannot be undone in-process."""
import os
from typing import Dict, List, Optional

from experimaestro import Config, LightweightTask, Param, Task, deprecate

from .zoo import _append


class NewCfg(Config):
    __xpmid__ = "xvdep.cfg.newcfg"
    v: Param[int]
    w: Param[str] = "w"


class OldCfg(NewCfg):
    __xpmid__ = "xvdep.legacy.oldcfg"


class Wrap(Config):
    __xpmid__ = "xvdep.cfg.wrap"
    inner: Param[NewCfg]
    many: Param[List[NewCfg]] = []
    named: Param[Dict[str, NewCfg]] = {}


class NewOut(Config):
    __xpmid__ = "xvdep.cfg.out"
    k: Param[int]


class NewProducer(Task):
    __xpmid__ = "xvdep.tasks.producer"
    x: Param[int]

    def task_outputs(self, dep):
        return dep(NewOut(k=self.x))

    def execute(self):
        pass


class OldProducer(NewProducer):
    __xpmid__ = "xvdep.legacy.producer"  # moved: same last component


class NewTask(Task):
    __xpmid__ = "xvdep.tasks.newtask"
    x: Param[int]
    cfg: Param[Optional[NewCfg]]
    cfgs: Param[List[NewCfg]] = []
    cmap: Param[Dict[str, NewCfg]] = {}
    wrap: Param[Optional[Wrap]]
    up: Param[Optional[NewOut]]

    def execute(self):
        log = os.environ.get("XV_LOG")
        if log:
            _append(log, f"start {self.x} {os.getpid()}")
            _append(log, f"end {self.x} {os.getpid()} ok")


class OldTaskMoved(NewTask):
    """The class was moved to another package: same last component of the type identifier."""

    __xpmid__ = "xvdep.legacy.newtask"


class OldTaskRenamed(NewTask):
    """The class was renamed: the last component of the type identifier differs."""

    __xpmid__ = "xvdep.tasks.oldname"


class DepInit(LightweightTask):
    __xpmid__ = "xvdep.tasks.init"
    k: Param[int]

    def execute(self):
        pass


OLD = {"OldCfg": OldCfg, "OldProducer": OldProducer, "OldTaskMoved": OldTaskMoved, "OldTaskRenamed": OldTaskRenamed}

if os.environ.get("XV_DEPRECATE") == "1":
    for _c in OLD.values():
        deprecate(_c)
