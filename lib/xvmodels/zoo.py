"""Fixed zoo of configuration / task classes covering every constructor the properties quantify over.

Keep in sync with xvgen/schema.py (the harness's own, independent description of these classes:
the reference encoder, the shadow model and the validators only ever read the schema).
"""
import json
import os
import sys
import time
from enum import Enum, IntEnum
from pathlib import Path
from typing import Dict, List, Optional

from experimaestro import (
    Annotated,
    Config,
    Constant,
    LightweightTask,
    Meta,
    Option,
    Param,
    PathGenerator,
    Task,
    field,
    pathgenerator,
)

from . import calllog


class Color(Enum):
    RED = 1
    GREEN = 2
    BLUE = 3


class Level(IntEnum):
    """An enumeration whose members are also ints (earlier releases hash them as ints)."""

    LOW = 1
    HIGH = 2


class Mode(str, Enum):
    """An enumeration whose members are also strings."""

    A = "a"
    B = "b"


class Shade(Enum):
    RED = 1
    DARK = 2


def _set_names(obj):
    return sorted(k for k in vars(obj) if not k.startswith("_"))


class Instrumented:
    """Mixin: logs __post_init__ with the set of attributes already present (C13)."""

    def __post_init__(self):
        calllog.record("post_init", self, _set_names(self))


class Leaf(Instrumented, Config):
    i: Param[int]
    f: Param[float] = 1.5
    s: Param[str] = "s0"
    b: Param[bool] = False
    oi: Param[Optional[int]]
    os: Param[Optional[str]]
    e: Param[Color] = Color.RED
    e2: Param[Optional[Shade]]
    od: Param[Optional[int]] = 7  # optional with a default that is not None: None is then an explicit value
    lv: Param[Optional[Level]]
    md: Param[Mode] = Mode.A
    lvs: Param[List[Level]] = []
    m: Meta[int] = 0
    o: Option[str] = "opt"
    p: Meta[Optional[Path]]
    pp: Param[Optional[Path]]
    c: Constant[int] = 3


class LeafB(Leaf):
    x: Param[int] = 0


class Other(Instrumented, Config):
    i: Param[int]
    s: Param[str] = "s0"


class Named(Instrumented, Config):
    """Explicit type identifier given as a plain string."""

    __xpmid__ = "xvmodels.custom.named"
    v: Param[int]


class NamedChild(Named):
    """No __xpmid__ of its own: its type identifier is the default one (module.qualname), not the parent's string."""

    w: Param[int] = 0


class Node(Instrumented, Config):
    child: Param[Leaf]
    opt: Param[Optional[Leaf]]
    items: Param[List[Leaf]] = []
    table: Param[Dict[str, Leaf]] = {}
    ints: Param[List[int]] = []
    strs: Param[List[str]] = []
    names: Param[Dict[str, str]] = {}
    counts: Param[Dict[str, int]] = {}
    grid: Param[List[List[int]]] = []
    dl: Param[Dict[str, List[Leaf]]] = {}
    ld: Param[List[Dict[str, Leaf]]] = []
    dd: Param[Dict[str, Dict[str, int]]] = {}
    mchild: Meta[Optional[Leaf]]
    mitems: Meta[List[Leaf]] = []
    dflt: Param[Leaf] = Leaf(i=7)
    named: Param[Optional[Named]]
    dlist: Param[List[int]] = [1, 2]
    ddict: Param[Dict[str, int]] = {"a": 1}


class Rec(Instrumented, Config):
    """Recursive class: shared and cyclic graphs."""

    v: Param[int]
    a: Param[Optional["Rec"]]
    b: Param[Optional["Rec"]]
    kids: Param[List["Rec"]] = []
    named: Param[Dict[str, "Rec"]] = {}
    leaf: Param[Optional[Leaf]]


def _dynname(context, config):
    return "dyn.dat"


class GenLeaf(Instrumented, Config):
    """Used as the *default value* of a configuration-typed parameter: every owner gets its own copy."""

    w: Param[int] = 0
    leafpath: Annotated[Path, pathgenerator("leaf.txt")]


class GenInt(Instrumented, Config):
    """A generated parameter that is neither a path nor Meta (filled when the configuration is sealed)."""

    w: Param[int] = 0
    g: Param[int] = field(default_factory=lambda: 7)


class OwnerGI(Instrumented, Config):
    """Holds a GenInt as the default value of a configuration-typed parameter (directed case of C02)."""

    x: Param[int]
    sub: Param[GenInt] = GenInt()


class Gen(Instrumented, Config):
    """Generated paths in the three declaration styles, nestable everywhere."""

    x: Param[int]
    out: Annotated[Path, pathgenerator("out.txt")]
    aux: Meta[Path] = field(default_factory=PathGenerator("aux.bin"))
    dyn: Annotated[Path, pathgenerator(_dynname)]
    sub: Param[Optional["Gen"]]
    subs: Param[List["Gen"]] = []
    named: Param[Dict[str, "Gen"]] = {}
    lds: Param[List[Dict[str, "Gen"]]] = []
    dls: Param[Dict[str, List["Gen"]]] = {}
    dds: Param[Dict[str, Dict[str, "Gen"]]] = {}
    dsub: Param[GenLeaf] = GenLeaf()


class Artifact(Instrumented, Config):
    v: Param[int]
    note: Param[str] = "n"


class Holder(Instrumented, Config):
    t: Param[Optional["TaskT"]]
    a: Param[Optional[Artifact]]
    ts: Param[List["TaskT"]] = []


def _append(path, line):
    fd = os.open(path, os.O_WRONLY | os.O_APPEND | os.O_CREAT, 0o644)
    try:
        os.write(fd, (line + "\n").encode())
    finally:
        os.close(fd)


def echo_value(v, memo):
    """Dump of a runtime value with object identities (C12/C13 runtime side)."""
    if isinstance(v, Config):
        if id(v) in memo:
            return {"$ref": memo[id(v)]}
        memo[id(v)] = len(memo)
        return {
            "$obj": memo[id(v)],
            "$id": id(v),
            "$cls": next(c.__qualname__ for c in type(v).__mro__ if not c.__qualname__.endswith((".XPMValue", ".XPMConfig")) and c.__name__ not in ("TypeConfig", "XPMValue")),
            "fields": {k: echo_value(x, memo) for k, x in sorted(vars(v).items()) if not k.startswith("_")},
        }
    if isinstance(v, list):
        return [echo_value(x, memo) for x in v]
    if isinstance(v, dict):
        return {"$dict": {k: echo_value(x, memo) for k, x in v.items()}}
    if isinstance(v, Path):
        return {"$path": str(v)}
    if isinstance(v, Enum):
        return {"$enum": f"{type(v).__qualname__}.{v.name}"}
    if isinstance(v, float):
        return {"$float": v.hex()}
    return v


class TaskBase(Instrumented, Task):
    x: Param[int]
    direct: Param[Optional["TaskT"]]
    art: Param[Optional[Artifact]]
    lst: Param[List["TaskT"]] = []
    arts: Param[List[Artifact]] = []
    dct: Param[Dict[str, "TaskT"]] = {}
    adct: Param[Dict[str, Artifact]] = {}
    holder: Param[Optional[Holder]]
    leaf: Param[Optional[Leaf]]
    node: Param[Optional[Node]]
    rec: Param[Optional[Rec]]
    gen: Param[Optional[Gen]]
    out: Annotated[Path, pathgenerator("result.txt")]
    mode: Meta[str] = "ok"
    hold: Meta[int] = 0

    def execute(self):
        calllog.record("execute", self, None)
        log = os.environ.get("XV_LOG")
        me = f"{self.x} {os.getpid()}"
        if log:
            _append(log, f"start {me}")
        if os.environ.get("XV_ECHO"):
            memo = {}
            data = {"params": echo_value(self, memo), "tags": getattr(self, "__tags__", None), "calls": [list(c) for c in (calllog.LOG or [])], "self": id(self)}
            Path("echo.json").write_text(json.dumps(data))
        if 0 < self.hold < 60000:
            time.sleep(self.hold / 1000.0)
        go = os.environ.get("XV_GO")
        if go:
            # wait for a go-file (stable "running" phase for the restart checks)
            while not (Path(go) / f"go{self.x}").exists() and not (Path(go) / "goall").exists():
                time.sleep(0.01)
        if self.mode == "raise":
            if log:
                _append(log, f"end {me} fail")
            raise RuntimeError("task body failed on purpose")
        if self.mode == "exit0":
            # a body that ends the way a command-line entry point does: sys.exit(main())
            if log:
                _append(log, f"end {me} ok")
            sys.exit(0)
        if self.mode == "exit3":
            if log:
                _append(log, f"end {me} fail")
            sys.exit(3)
        if self.mode in ("termdel", "intdel"):
            # a termination signal whose Python-level handler runs inside a finalizer: an exception raised there
            # (the runner's handler calls sys.exit) is reported as "ignored" by the interpreter and the body goes on
            import signal as _signal

            signum = _signal.SIGTERM if self.mode == "termdel" else _signal.SIGINT

            class _Fin:
                def __del__(s):
                    os.kill(os.getpid(), signum)
                    for _ in range(20000):
                        pass

            _Fin()
        if self.mode == "fork":
            pid = os.fork()
            if pid == 0:
                os._exit(0)
            os.waitpid(pid, 0)
        if log:
            _append(log, f"end {me} ok")


class TaskT(TaskBase):
    """Output of submit() is the task itself."""


class TaskO(TaskBase):
    """Output of submit() is a configuration produced by task_outputs."""

    def task_outputs(self, dep):
        return dep(Artifact(v=self.x))


class TaskTM(TaskT):
    """Engine-B plans only: receives other jobs through ignored (Meta) parameters as well, and tasks of any class
    (also the task object of a class that declares task_outputs, instead of its output)."""

    mt: Meta[Optional[TaskT]]
    mts: Meta[List[TaskT]] = []
    ma: Meta[Optional[Artifact]]
    tb: Param[Optional[TaskBase]]
    tbs: Param[List[TaskBase]] = []


class TaskOM(TaskO):
    mt: Meta[Optional[TaskT]]
    mts: Meta[List[TaskT]] = []
    ma: Meta[Optional[Artifact]]
    tb: Param[Optional[TaskBase]]
    tbs: Param[List[TaskBase]] = []


class Pre(Instrumented, LightweightTask):
    k: Param[int]
    art: Param[Optional[Artifact]]
    t: Param[Optional[TaskT]]

    def execute(self):
        calllog.record("pre_execute", self, _set_names(self))


class Init(Instrumented, LightweightTask):
    k: Param[int]
    art: Param[Optional[Artifact]]

    def execute(self):
        calllog.record("init_execute", self, _set_names(self))
