"""Importable *package* of experimaestro model classes used by the /verif harness.

It must be a package: ConfigInformation.load_objects re-imports classes through
definition["module"]; for a package-less module it re-executes the file and creates second
copies of every class.
"""
