"""Class variants for C03: same type identifiers, one *constant* changed (signature-relevant)."""
from experimaestro import Constant

from . import zoo
from .zoo import Color, Level, Mode, Shade  # noqa: F401

Leaf = type(
    "Leaf",
    (zoo.Leaf,),
    {"__module__": __name__, "__qualname__": "Leaf", "__xpmid__": "xvmodels.zoo.leaf", "__annotations__": {"c": Constant[int]}, "c": 4},
)
for _n in ("LeafB", "Other", "Named", "NamedChild", "Node", "Rec", "Gen", "GenLeaf", "Artifact", "Holder", "TaskBase", "TaskT", "TaskO", "Pre", "Init"):
    globals()[_n] = getattr(zoo, _n)
