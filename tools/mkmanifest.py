#!/venv/bin/python
"""Regenerates /verif/MANIFEST.json from the table below and validates it against the schema."""
import json
import sys
from pathlib import Path

HERE = Path(__file__).resolve().parents[1]

# id -> (engine, category, technique, level text, level note, design ref)
CHECKS = {}


def check(pid, engine, category, technique, text, note, ref):
    CHECKS[pid] = dict(engine=engine, category=category, technique=technique, text=text, note=note, ref=ref)


check(
    "C18",
    "reference-monitor",
    "exploration",
    "runtime monitoring: reference host matcher and field-wise differential monitor beside launcherfinder on generated requests/hosts",
    "Every match() the real code grants on generated (request, host) pairs is re-judged by an independent reference matcher; "
    "parse(text) is compared with programmatic construction; operand snapshots before/after & and *; first-accepted order of alternatives. "
    "Held-on-observed-executions, which is what a pure function over an unbounded input space admits for this family.",
    "Trusted: the reference matcher (soundness only), the term generator's coverage of the accepted grammar (terms with >= 1 parameter).",
    "DESIGN.md §3 C18",
)

check(
    "C01",
    "reference-monitor",
    "exploration",
    "runtime monitoring: independent reference encoder + metamorphic histories (orders of keywords, sealing, identifier requests), cross-process / PYTHONHASHSEED comparison, pinned corpus",
    "Every node of every generated graph (nested, shared, cyclic, task outputs, containers, pre/init tasks) is rebuilt under ~8 histories; after each, "
    "raw and full identifier must equal an independent never-caching reference encoder; the same recipes are built in processes with different hash seeds; "
    "320 pinned recipes carry the identifiers of the original snapshot.",
    "Trusted: lib/xvref/sig.py and pinned/identifiers.json (generated from the snapshot commit and cross-checked with the reference) as stand-in for earlier releases; sha256.",
    "DESIGN.md §3 C01",
)
check(
    "C02",
    "reference-monitor",
    "exploration",
    "runtime monitoring: metamorphic monitor (neutral recipe edits at random nodes, class edits through same-id subclasses) on the real identifier computation, with negative controls",
    "For each generated graph a neutral edit (explicit default / None, Meta/Option/Path value, meta sub-configuration content, insertion, removal, tags, dependencies, "
    "launcher/workspace/run mode, class extended by defaulted/Meta/optional/generated parameters), alone or in pairs, must leave every node's raw and full identifier unchanged.",
    "Trusted: the list of neutral edits is the documented one; pre-tasks reachable through a meta-flagged node are treated as signature-relevant (the statement does not exclude them).",
    "DESIGN.md §3 C02",
)

check(
    "C03",
    "reference-monitor",
    "exploration",
    "runtime monitoring: stream tap on the hasher + type-directed decoder enumerating all parses, near-pair search, global identifier->signature bucket",
    "Each byte stream fed to sha256 is recorded per hasher instance, compared with the reference encoding and decoded back: exactly one parse, equal to the "
    "canonical signature (injectivity up to sha256 on the generated domain); one relevant small edit per graph must change the identifier; all (identifier, signature) "
    "pairs of a run are bucketed to expose collisions between unrelated graphs.",
    "Trusted: sha256 (digests of nested configurations are opaque atoms), the decoder and reference in lib/xvref; domain as stated (no control characters, dict depth <= 2).",
    "DESIGN.md §3 C03",
)

check(
    "C04",
    "engine-B",
    "exploration",
    "runtime monitoring under controlled-schedule execution: launch-order monitor at SimProcessBuilder.start against the plan's own edges, over seeded schedules of the controlled engine",
    "Every launch event is checked against the harness's ground truth (which task objects it embedded where) and its own record of successful exits, for every embedding kind and thousands of (plan, schedule) pairs. Held on the schedules explored; unexplored schedules are not covered.",
    "Trusted: the simulation boundary (SimProcess writes the runner's markers; foreign processes are a driver-serialised second CounterToken object), the plan as ground truth, asyncio FIFO inside the loop.",
    "DESIGN.md §2.3, §3 C04",
)
check(
    "C05",
    "engine-B",
    "exploration",
    "runtime monitoring under controlled-schedule execution: submission-history monitor: identity of submit outputs, registry size, launch log vs success markers and live processes, over seeded schedules and successive runs",
    "Duplicates at any position, completed and aborted previous runs (with re-attached live processes) are replayed under seeded schedules; a second job object, a relaunch after success or a launch beside a live process is a violation. An Engine-A part runs 2-3 real scheduler processes submitting the same jobs on one workspace (bodies never overlap and never run again after success, judged on the append-only task log) and starts the job script a second time while the first body runs; a further case runs a generate-only experiment between two normal runs of the same tasks. Held on the schedules explored; unexplored schedules are not covered.",
    "Trusted: the simulation boundary (SimProcess writes the runner's markers; foreign processes are a driver-serialised second CounterToken object), the plan as ground truth, asyncio FIFO inside the loop.",
    "DESIGN.md §2.3, §3 C05",
)
check(
    "C06",
    "engine-B",
    "exploration",
    "runtime monitoring under controlled-schedule execution: state / future / exit-condition monitors sampled at every quiescent point and at terminal quiescence of the controlled engine",
    "Final states must be truthful (planned exit codes, markers), stable across quiescent samples, equal to what Job.wait() returns; at terminal quiescence every job is final, unfinishedJobs is 0 and experiment.wait() has returned, and it never returns while a job is not final. Held on the schedules explored; unexplored schedules are not covered.",
    "Trusted: the simulation boundary (SimProcess writes the runner's markers; foreign processes are a driver-serialised second CounterToken object), the plan as ground truth, asyncio FIFO inside the loop.",
    "DESIGN.md §2.3, §3 C06",
)
check(
    "C07",
    "engine-B",
    "exploration",
    "runtime monitoring under controlled-schedule execution: failure-containment monitor (launch log and final states vs plan DAG and failing subset) over seeded schedules",
    "For random DAGs and failing subsets, with failures exiting before, while or after dependents are submitted: no launch below a failed job, dependents end in error, unrelated jobs complete, experiment.wait() raises exactly when a job failed. Held on the schedules explored; unexplored schedules are not covered.",
    "Trusted: the simulation boundary (SimProcess writes the runner's markers; foreign processes are a driver-serialised second CounterToken object), the plan as ground truth, asyncio FIFO inside the loop.",
    "DESIGN.md §2.3, §3 C07",
)
check(
    "C08",
    "engine-B",
    "exploration",
    "runtime monitoring under controlled-schedule execution: capacity ledger monitor (launch/exit/foreign acquire/release) plus on-disk recount at every quiescent point, with a foreign agent on the same token directory",
    "The monitor's own ledger and the sum of the token files never exceed the total, for heterogeneous requests, two tokens per job and foreign acquisitions whose notification is still queued. An Engine-A part shares one file token between 2-3 real scheduler processes with real job processes and sweeps the running sum of requests over the append-only task log; half of the rounds run under random preemption injection, one round per worker delays one statement of the token / lock code (single-delay sweep), one defines the token a second time with a larger total inside one process. Held on the schedules explored; unexplored schedules are not covered.",
    "Trusted: the simulation boundary (SimProcess writes the runner's markers; foreign processes are a driver-serialised second CounterToken object), the plan as ground truth, asyncio FIFO inside the loop.",
    "DESIGN.md §2.3, §3 C08",
)
check(
    "C09",
    "engine-B",
    "exploration",
    "runtime monitoring under controlled-schedule execution: conservation-at-quiescence monitor: token files, fresh recount, in-memory availability, waiting-with-capacity; observer-death detection",
    "At terminal quiescence no token file is left, a fresh recount shows full capacity, no job waits while its request fits; covers failures, aborted starts, foreign files created before written, reclaim by another process, previous aborted runs. An Engine-A part kills one of several real scheduler processes while its job holds the shared token: the survivors must drain their plans (hangs decided on quiescence certificates) and a fresh token object must count full capacity afterwards; directed preemption places the reclaim of a stale token file before, during and after the start-up of a new token object, and a single-delay sweep delays one statement of the token / lock code per round. Held on the schedules explored; unexplored schedules are not covered.",
    "Trusted: the simulation boundary (SimProcess writes the runner's markers; foreign processes are a driver-serialised second CounterToken object), the plan as ground truth, asyncio FIFO inside the loop.",
    "DESIGN.md §2.3, §3 C09",
)

check(
    "C14",
    "reference-monitor",
    "exploration",
    "runtime monitoring: history monitor (random assignment / meta / pre-task attempts interleaved with identifier requests on every harness-computed reachable node after submit or seal)",
    "After dry-run submit, generate-only submit or seal (also cyclic graphs), every attempt of the three operations named in the statement on every node the harness's own shadow "
    "model finds reachable must raise, and all identifiers and the job directory are re-read after every step and must equal their values at submission; copyconfig with overrides is attempted as well and what every reachable node holds (values by identity, meta flag, pre-task list) is compared with a snapshot taken at submission after every step.",
    "Trusted: reachability computed from the recipe (parameters, containers, task outputs and their tasks, pre/init tasks, cycles).",
    "DESIGN.md §3 C14",
)
check(
    "C15",
    "reference-monitor",
    "exploration",
    "runtime monitoring: reference type validator beside Argument.validate on generated (type, value) pairs; removal monitor on submit in dry-run and in normal mode on the controlled scheduler",
    "Classes with one parameter of a generated type are created inside xvmodels; conforming values must be accepted and read back equal after the documented coercions, anything "
    "else must raise or (bool only) store a bool; a task graph with one required value removed at any nesting kind must be rejected by submit with the scheduler registry, unfinished "
    "counter and job links unchanged, and so must a second attempt: a new task object built over the same unrepaired parameter objects.",
    "Trusted: the reference validator (documented coercions only; bool exemption stated in the evidence).",
    "DESIGN.md §3 C15",
)
check(
    "C17",
    "reference-monitor",
    "exploration",
    "runtime monitoring: direct inspection of generated values after every submission (containment, pairwise distinctness, reproducibility across two builds)",
    "For every submission of every generated recipe the harness determines, from its own shadow model, which configurations that submission seals, reads their generated parameters and "
    "checks that each resolves inside that task's job directory, that no two collide and that a second build yields the same paths.",
    "Trusted: domain restrictions of the statement (plain file names, identifier-like keys).",
    "DESIGN.md §3 C17",
)

check(
    "C12",
    "reference-monitor",
    "exploration",
    "runtime monitoring: isomorphism checker over reloaded graphs on every save/load channel + recomputed identifiers; real job processes echoing observed values and tags",
    "Each generated graph goes through state_dict (single, list, dict), save/load, __json__, serialize and - for generate-only task submissions - the real params.json read back by "
    "from_task_dir and by the repair tool's loader; classes, all values (floats bit-wise), aliasing, meta flags, pre/init lists, producing tasks and recomputed identifiers must match; "
    "a sample of generated job scripts is executed and the task body's echo compared with the configured graph and tags.",
    "Trusted: the isomorphism checker (lib/xvref/iso.py); raw ConfigInformation.values as the observation point.",
    "DESIGN.md §3 C12",
)
check(
    "C13",
    "reference-monitor",
    "exploration",
    "runtime monitoring: node->object bijection checker and call-log monitor (instrumented model classes) on instance(), fromParameters(as_instance) and real job processes",
    "For graphs with sharing, cycles and pre/init tasks at many nodes: one runtime object per configuration wired like the graph, __post_init__ exactly once per object after its "
    "parameters are set, every pre-task exactly once (also with a shared ObjectStore), init tasks once, after the pre-tasks and before the body in the parameter-file routes.",
    "Trusted: the call log written by xvmodels' instrumented classes; the checker's notion of which configurations a route turns into objects (values, pre-task and init-task lists).",
    "DESIGN.md §3 C13",
)

check(
    "C19",
    "reference-monitor",
    "exploration",
    "runtime monitoring: reference filter evaluator beside the compiled pyparsing filter; before/after diff of real workspaces around 'jobs clean' and 'orphans' invoked through click",
    "Random filter expressions over tags/@state/@name (all four operators, and/or chains, both quote styles) are compiled by the real grammar and evaluated on random jobs against a "
    "reference written from the documented meaning; real job directories in every marker state (including failed + live pid), indexed by experiments with index and backup index, are "
    "cleaned / pruned through the CLI and the deleted set is compared with the reference selection; layouts include job folders that are links left by the deprecation repair (indexed or not) and the --experiment restriction.",
    "Trusted: the reference evaluator (both readings of mixed and/or chains accepted, anchored regular expressions); 'running' = the process in the pid file is alive.",
    "DESIGN.md §3 C19",
)

check(
    "C10",
    "engine-K",
    "fault_enumeration",
    "runtime monitoring with fault injection: sys.monitoring LINE crash-point injector (sitecustomize) in the real job process; offline checks over the job directory, the body's append-only log and the run lock",
    "Every statement boundary of the task runner and the task body between TaskRunner.run and process exit is enumerated as the instant of SIGKILL, SIGTERM and SIGINT for four task "
    "variants, on the real generated script and params.json; after each death: success marker only with a completed body, run lock obtainable by another process, failure marker after a "
    "termination signal in the body, relaunch runs the body exactly when no success marker exists, no pid file after a natural end. Also: a signal whose handler runs inside a finalizer of the body (the handler's exit is swallowed there), and launches of an already finished job hit by a catchable signal (double faults).",
    "Trusted: crash points are statement boundaries (C-level calls are atomic for the injector); the pid file is written by the harness as the scheduler does.",
    "DESIGN.md §2.5, §3 C10",
)

check(
    "C16",
    "engine-B",
    "exploration",
    "runtime monitoring: index model monitor after every run of generated histories on the controlled engine, real 'orphans' command as second observer, crash-point injection in experiment.__enter__/__exit__, holder-file overlap detector for two real processes",
    "Histories of 2-6 runs (normal / aborted after k submissions) are executed; after each run the symlink index and its backup are compared with the harness's model and the real orphans "
    "command must not list a protected job; a victim process replaying such histories is killed at every statement of __enter__/__exit__ and a follow-up run must restore the exact index; "
    "real processes contend for one experiment (together, or arriving while the holder has a job indexed): a holder file detects any overlap and every holder observes its own index link while it holds the experiment.",
    "Trusted: the progress log of the victim for killed runs; jobs are simulated processes (the index code does not depend on them).",
    "DESIGN.md §3 C16",
)

check(
    "C20",
    "reference-monitor",
    "exploration",
    "runtime monitoring: three-phase differential monitor in fresh processes (record under former identifiers / identifier equality under deprecation / real repair command on workspaces in prior states) with inventory, reachability, idempotence and resubmission oracles",
    "Job directories are recorded by a process in which nothing is deprecated, together with the identifier the replacement classes give; processes with the old classes deprecated then "
    "check identifier equality at every position (root, nested, list, dict, wrapper, producing task of an output) and run 'deprecated list --fix [--cleanup]' on workspaces that are "
    "untouched, already linked, dangling, partially repaired or linked-then-cleaned: payload reachable under the new identifier, no recorded file lost, second repair is a no-op, "
    "resubmission finds the success marker.",
    "Trusted: expected new identifiers come from the replacement classes without deprecate(); job directories are generate-only outputs plus harness-written marker and payload.",
    "DESIGN.md §3 C20",
)

check(
    "C11",
    "engine-A",
    "fault_enumeration",
    "runtime monitoring with fault injection: crash-point injector in a real scheduler process + coarse-phase signals, real job processes with go-file controlled phases; offline exactly-once / adoption / conservation checkers over the append-only task and job-script logs; quiescence certificates for hang verdicts",
    "A real scheduler running a chain plan with a file token is killed at sampled line events of its submit/start/run path and at four coarse phases with KILL/TERM/INT; a second real run "
    "of the same plan must finish with every job DONE, exactly one body execution and one job-script start per adoptable job overall, surviving job processes, and an empty token directory.",
    "Trusted: crash locations are recorded by the injector (event order varies between runs with real threads); a hang verdict needs quiescence certificates, time-outs alone are inconclusive.",
    "DESIGN.md §2.4, §2.5, §3 C11",
)

NOT_APPLICABLE = []


def main():
    props = [json.loads(l)["id"] for l in (HERE / "properties.jsonl").read_text().splitlines() if l.strip()]
    checks = []
    for pid in props:
        if pid not in CHECKS:
            continue
        c = CHECKS[pid]
        checks.append(
            {
                "property_id": pid,
                "quick_cmd": f"./vcheck {pid} --tier quick",
                "thorough_cmd": f"./vcheck {pid} --tier thorough",
                "evidence_file": f"evidence/{pid}.json",
                "replay_cmd_template": f"./vcheck {pid} --replay {{path}}",
                "engine": c["engine"],
                "level_claimed": {"category": c["category"], "text": c["text"], "design_ref": c["ref"]},
                "level_note": c["note"],
                "technique": c["technique"],
            }
        )
    na = list(NOT_APPLICABLE)
    claimed = {c["property_id"] for c in checks}
    listed = {n["property_id"] for n in na}
    for pid in props:
        if pid not in claimed and pid not in listed:
            na.append({"property_id": pid, "reason": "check under construction in this round: monitor not yet built, so nothing is claimed (see DESIGN.md §3 for the planned monitor)"})
    man = {
        "version": 1,
        "setup_cmd": "./setup.sh",
        "hooks": {
            "guard": "EXPERIMAESTRO_VERIF",
            "enable": "no source hooks: every observation point is attached from the harness at run time (class/module patching, launcher subclass, sitecustomize for child processes); checks import /repo/src first on PYTHONPATH",
            "baseline_off_cmd": "cd /repo && /venv/bin/python -m pytest -ra -q -p no:cacheprovider --timeout=900 --continue-on-collection-errors",
            "source_commits": [],
            "add_only": True,
        },
        "engines": [
            {"name": "reference-monitor", "path": "lib/xvref", "serves_properties": [p for p in props if CHECKS.get(p, {}).get("engine") == "reference-monitor"], "kind_free_text": "independent executable reference models run beside the real code on generated inputs (differential / metamorphic runtime monitors)"},
            {"name": "engine-B", "path": "lib/xvengine/engb.py", "serves_properties": [p for p in props if CHECKS.get(p, {}).get("engine") == "engine-B"], "kind_free_text": "controlled-schedule in-process execution of the real scheduler/token code; helper threads, process exits, fs events delivered by a seeded driver at quiescent points; monitors on hooked state"},
            {"name": "engine-K", "path": "lib/inject/sitecustomize.py", "serves_properties": [p for p in props if CHECKS.get(p, {}).get("engine") == "engine-K"], "kind_free_text": "crash-point injection through sys.monitoring LINE events in child processes; offline checkers over directory state and append-only task logs"},
            {"name": "engine-A", "path": "lib/xvengine/enga.py", "serves_properties": [p for p in props if CHECKS.get(p, {}).get("engine") == "engine-A"], "kind_free_text": "real multi-process stress runs with append-only task-side logs and offline history checkers"},
        ],
        "checks": checks,
        "not_applicable": na,
        "notes": "Technique family: runtime monitoring. Pure-Python target: compiler sanitizers have nothing to instrument (DESIGN.md §1). exit 2 = INCONCLUSIVE (never a VIOLATION line).",
    }
    (HERE / "MANIFEST.json").write_text(json.dumps(man, indent=1) + "\n")
    try:
        import jsonschema

        jsonschema.validate(man, json.loads(Path("/root/.vp/MANIFEST.schema.json").read_text()))
        print("MANIFEST.json valid;", len(checks), "checks,", len(na), "not applicable")
    except ImportError:
        print("MANIFEST.json written (jsonschema not available for validation)")


if __name__ == "__main__":
    main()
