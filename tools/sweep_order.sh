#!/bin/sh
# Seed sweep over a chosen list of checks: tools/sweep_order.sh <tier> <seed> <ID>...
tier=$1; seed=$2; shift; shift
cd "$(dirname "$0")/.."
out=/dev/shm/verif-sweep-$$
mkdir -p $out
for c in "$@"; do
  VERIF_SEED=$seed VERIF_EVIDENCE_DIR=$out/ev VERIF_REPLAY_DIR=$out/rp ./vcheck $c --tier $tier 2>&1 | grep -E "^(C[0-9]+ |INCONCLUSIVE|# |KNOWN)" | cut -c1-300 | tail -4
done
echo "sweep finished; replays (if any) under $out/rp"
