#!/venv/bin/python
"""Writes /verif/pinned/identifiers.json: recipes with the identifiers computed by the release in VERIF_REPO.

Run against a checkout of the pinned snapshot (PIN_APPEND=<n> adds n recipes of the current generator to the file):
    git -C /repo worktree add /dev/shm/pin 406b0b9
    VERIF_REPO=/dev/shm/pin PYTHONPATH=/dev/shm/pin/src:/verif/lib /venv/bin/python tools/mkpinned.py
Every entry is kept only if the independent reference encoder agrees with the release.
"""
import json
import os
import random
import sys
import tempfile
from pathlib import Path

HERE = Path(__file__).resolve().parents[1]
sys.path[:0] = [os.environ.get("VERIF_REPO", "/repo") + "/src", str(HERE / "lib")]
from xvgen import build, idlib, recipes, xpctx  # noqa: E402

xpctx.quiet()
import experimaestro  # noqa: E402

print("pinning identifiers of", experimaestro.__file__)
# PIN_APPEND=<n>: keep what is pinned and add n recipes from the current generator (new input classes of the zoo)
append = int(os.environ.get("PIN_APPEND", "0"))
out = json.loads((HERE / "pinned" / "identifiers.json").read_text()) if append else []
target = len(out) + append if append else 320
label = f"pinned{len(out)}" if append else "pinned"
feats = {}
wd = Path(tempfile.mkdtemp(dir="/dev/shm"))
with xpctx.stderr_to_devnull(), xpctx.dry_experiment(wd):
    seed = 0
    classes = recipes.Profile().root_classes
    while len(out) < target:
        seed += 1
        rng = random.Random(f"{label}-{seed}")
        rec = recipes.generate(rng, root_cls=classes[seed % len(classes)])
        if rec["kind"] == "task" and seed % 2:
            rec["steps"].append(["submit", rec["root"], []])
        sh, ref = idlib.shadow_of(rec)
        b = build.Builder().run(rec)
        ids = build.all_ids(b)
        want = idlib.reference_ids(sh, ref, list(ids))
        assert {k: list(v) for k, v in ids.items()} == {k: list(v) for k, v in want.items()}, f"reference disagrees at seed {seed}"
        for f in idlib.features(rec, sh):
            feats[f] = feats.get(f, 0) + 1
        out.append({"recipe": {"steps": rec["steps"], "root": rec["root"], "kind": rec["kind"]}, "ids": {k: list(v) for k, v in ids.items()}})
import shutil

shutil.rmtree(wd, ignore_errors=True)
(HERE / "pinned" / "identifiers.json").write_text(json.dumps(out, separators=(",", ":")))
print(len(out), "recipes pinned; features:", feats)
