#!/venv/bin/python
"""Seeded changes written by independent sub-agents (DESIGN.md §9).

    tools/seedtool.py collect <worktree> <name> <property>   copy patch + demonstration into seeded/<name>/
    tools/seedtool.py verify <name>      fresh scratch worktree of /repo: demo passes without the change, fails with it,
                                         the repository's test suite passes with it; the worktree is removed afterwards
    tools/seedtool.py check <name> <ID>...   run the quick tier of the given checks against a scratch copy of /repo/src
                                         with the change applied (VERIF_REPO); nothing is ever modified in /repo
"""
import json
import os
import shutil
import subprocess
import sys
import time
from pathlib import Path

HERE = Path(__file__).resolve().parents[1]
SEEDED = HERE / "seeded"


def sh(cmd, **kw):
    return subprocess.run(cmd, shell=isinstance(cmd, str), capture_output=True, text=True, **kw)


def collect(wt, name, prop):
    wt = Path(wt)
    d = SEEDED / name
    d.mkdir(parents=True, exist_ok=True)
    diff = sh(["git", "-C", str(wt), "diff"]).stdout
    (d / "patch.diff").write_text(diff)
    shutil.copy(wt / "demo.py", d / "demo.py")
    if (d / "demopkg").exists():
        shutil.rmtree(d / "demopkg")
    shutil.copytree(wt / "demopkg", d / "demopkg", ignore=shutil.ignore_patterns("__pycache__"))
    # the demonstrations were written for the agent's worktree path: make them relocatable
    for f in [d / "demo.py"] + list((d / "demopkg").glob("*.py")):
        f.write_text(f.read_text().replace(str(wt), "@WORKTREE@"))
    meta = {"property": prop, "name": name, "needs": "", "ran": [], "files_changed": [l[6:] for l in diff.splitlines() if l.startswith("+++ b/")]}
    if not (d / "meta.json").exists():
        (d / "meta.json").write_text(json.dumps(meta, indent=1))
    print("collected", name, meta["files_changed"])


def materialise(name, wt):
    d = SEEDED / name
    shutil.copy(d / "demo.py", wt / "demo.py")
    if (wt / "demopkg").exists():
        shutil.rmtree(wt / "demopkg")
    shutil.copytree(d / "demopkg", wt / "demopkg")
    for f in [wt / "demo.py"] + list((wt / "demopkg").glob("*.py")):
        f.write_text(f.read_text().replace("@WORKTREE@", str(wt)))


def verify(name, suite=True):
    wt = Path("/tmp/seedv") / name
    if wt.exists():
        sh(["git", "-C", "/repo", "worktree", "remove", "--force", str(wt)])
    wt.parent.mkdir(exist_ok=True)
    r = sh(["git", "-C", "/repo", "worktree", "add", "-q", str(wt), "HEAD"])
    assert r.returncode == 0, r.stderr
    res = {"name": name}
    try:
        materialise(name, wt)
        env = dict(os.environ, PYTHONPATH=f"{wt}/src:{wt}", XPM_WORKDIR=f"/dev/shm/seedv-{name}-local")
        a = sh(["timeout", "600", "/venv/bin/python", "demo.py"], cwd=str(wt), env=env)
        res["demo_without"] = a.returncode
        p = sh(["git", "-C", str(wt), "apply", str(SEEDED / name / "patch.diff")])
        assert p.returncode == 0, p.stderr
        b = sh(["timeout", "600", "/venv/bin/python", "demo.py"], cwd=str(wt), env=env)
        res["demo_with"] = b.returncode
        res["demo_with_tail"] = (b.stdout + b.stderr)[-300:]
        if suite:
            t = sh(f"cd {wt} && PYTHONPATH={wt}/src timeout 1500 /venv/bin/python -m pytest -q -rf -p no:cacheprovider --timeout=900 src/experimaestro/tests -k 'not restart and not token_fail' 2>&1 | tail -12")
            res["suite_tail"] = t.stdout.strip().splitlines()[-1:]
            failed = [l.split()[1] for l in t.stdout.splitlines() if l.startswith("FAILED ")]
            if failed:
                # tests with 2-3 s time limits fail under machine load: each failed test is run again on its own
                res["failed_in_full_run"] = failed
                again = sh(f"cd {wt} && PYTHONPATH={wt}/src timeout 900 /venv/bin/python -m pytest -q -p no:cacheprovider --timeout=900 {' '.join(failed)} 2>&1 | tail -1")
                res["failed_tests_run_alone"] = again.stdout.strip().splitlines()[-1:]
    finally:
        sh(["git", "-C", "/repo", "worktree", "remove", "--force", str(wt)])
        shutil.rmtree(f"/dev/shm/seedv-{name}-local", ignore_errors=True)
    print(json.dumps(res))
    return res


def check(name, checks):
    dst = Path("/dev/shm") / f"verif-seed-{name}-{os.getpid()}"
    if dst.exists():
        shutil.rmtree(dst)
    shutil.copytree("/repo/src", dst / "src", ignore=shutil.ignore_patterns("__pycache__"))
    r = sh(["patch", "-p1", "-d", str(dst), "-i", str(SEEDED / name / "patch.diff")])
    assert r.returncode == 0, r.stdout + r.stderr
    out = {}
    try:
        for c in checks:
            env = dict(os.environ, VERIF_REPO=str(dst), VERIF_EVIDENCE_DIR=str(dst / "ev"), VERIF_REPLAY_DIR=str(dst / "rp"))
            t0 = time.time()
            pr = sh([str(HERE / "vcheck"), c, "--tier", os.environ.get("SEED_TIER", "quick")], env=env, cwd=str(HERE))
            mech = [l for l in pr.stdout.splitlines() if l.startswith("# violations by mechanism")]
            out[c] = {"rc": pr.returncode, "mechanisms": mech[0][27:200] if mech else "", "wall": round(time.time() - t0), "last": pr.stdout.strip().splitlines()[-1][:160] if pr.stdout.strip() else ""}
            print(name, c, json.dumps(out[c]), flush=True)
    finally:
        shutil.rmtree(dst, ignore_errors=True)
    return out


if __name__ == "__main__":
    cmd = sys.argv[1]
    if cmd == "collect":
        collect(*sys.argv[2:5])
    elif cmd == "verify":
        verify(sys.argv[2], suite="--nosuite" not in sys.argv)
    elif cmd == "check":
        check(sys.argv[2], sys.argv[3:])
