#!/venv/bin/python
"""Monitor validation: apply deliberate one-line breakages to a scratch copy of /repo and confirm that the
quick tier of the named checks reports a VIOLATION (DESIGN.md §4b).  Nothing is ever changed in /repo.

    tools/muttest.py [name-substring ...]      run the mutations whose name contains a substring (default: all)
Results are appended to tools/muttest.log.
"""
import json
import os
import shutil
import subprocess
import sys
import time
from pathlib import Path

HERE = Path(__file__).resolve().parents[1]
SRC = "src/experimaestro/"

# (name, file, old, new, [checks])
MUTATIONS = [
    # C01
    ("c01-args-unsorted", "core/objects.py", "arguments = sorted(xpmtype.arguments.values(), key=lambda a: a.name)", "arguments = list(xpmtype.arguments.values())", ["C01", "C02"]),
    ("c01-dict-unsorted", "core/objects.py", "            items.sort(key=lambda x: x[0])\n", "", ["C01"]),
    (
        "c01-cache-unsealed",
        "core/objects.py",
        ["        if raw_identifier is None or not self._sealed:\n            # Get the main identifier", "            if self._sealed:\n                self._raw_identifier = raw_identifier"],
        ["        if raw_identifier is None:\n            # Get the main identifier", "            if True:\n                self._raw_identifier = raw_identifier"],
        ["C01"],
    ),
    ("c01-revert-fix1", "core/objects.py", "identifier.has_loops = config_path.has_loop()", "identifier.has_loop = config_path.has_loop()", ["C01"]),
    ("c01-hash-repr-enum", "core/objects.py", 'f"{k.__module__}.{k.__qualname__ }:{value.name}".encode("utf-8"),', 'f"{k.__module__}.{k.__qualname__ }:{hash(value.name) % 7}".encode("utf-8"),', ["C01"]),
    # C02
    ("c02-no-remove-meta", "core/objects.py", "and argument.default == remove_meta(argvalue)", "and argument.default == argvalue", ["C02"]),
    ("c02-dict-keeps-ignored", "core/objects.py", "(key, value) for key, value in value.items() if not is_ignored(value)\n            ]\n            items.sort", "(key, value) for key, value in value.items()\n            ]\n            items.sort", ["C02", "C01"]),
    ("c02-path-not-ignored", "core/types.py", '    @property\n    def ignore(self):\n        """Ignore by default"""\n        return True', '    @property\n    def ignore(self):\n        """Ignore by default"""\n        return False', ["C02", "C01"]),
    ("c02-tags-hashed", "core/objects.py", "            xpmtype = value.__xpmtype__\n            self._hashupdate(xpmtype.identifier.name.encode(\"utf-8\"))", "            xpmtype = value.__xpmtype__\n            self._hashupdate(xpmtype.identifier.name.encode(\"utf-8\"))\n            self._hashupdate(str(sorted(value.__xpm__._tags.items())).encode())", ["C02", "C01"]),
    ("c02-default-always-hashed", "core/objects.py", "                    or (\n                        argument.default is not None\n                        and argument.default == remove_meta(argvalue)\n                    )", "", ["C02", "C01"]),
    # C03
    ("c03-no-list-length", "core/objects.py", '            self._hashupdate(struct.pack("!d", len(values)))\n', "", ["C03", "C01"]),
    ("c03-no-name-id", "core/objects.py", "                self._hashupdate(HashComputer.NAME_ID)\n", "", ["C03", "C01"]),
    ("c03-no-task-id", "core/objects.py", "                self._hashupdate(HashComputer.TASK_ID)\n                self.update(value.__xpm__.task)\n", "", ["C03", "C01"]),
    ("c03-init-sorted", "core/objects.py", "                for init_task in self.init_tasks:\n                    hasher.update(init_task.__xpm__.raw_identifier.all)", "                for init_id in sorted(i.__xpm__.raw_identifier.all for i in self.init_tasks):\n                    hasher.update(init_id)", ["C03", "C01"]),
    ("c03-enum-member-only", "core/objects.py", 'f"{k.__module__}.{k.__qualname__ }:{value.name}".encode("utf-8"),', 'f"{value.name}".encode("utf-8"),', ["C03", "C01"]),
    ("c03-no-arg-name", "core/objects.py", "                # Hash name\n                self.update(argument.name)\n", "", ["C03", "C01"]),
    # C04
    ("c04-skip-dict-values", "core/objects.py", "        for key, val in value.items():\n            updatedependencies(dependencies, key, path, taskids)\n            updatedependencies(dependencies, val, path, taskids)", "        for key, val in value.items():\n            updatedependencies(dependencies, key, path, taskids)", ["C04"]),
    ("c04-no-init-deps", "core/objects.py", "        for init_task in self.init_tasks:\n            init_task.__xpm__.updatedependencies(\n                dependencies, path + [\"__init_tasks__\"], taskids\n            )", "        pass", ["C04"]),
    ("c04-running-is-ok", "scheduler/base.py", "        if self.origin.state == JobState.DONE:\n            return DependencyStatus.OK", "        if self.origin.state in (JobState.DONE, JobState.RUNNING):\n            return DependencyStatus.OK", ["C04"]),
    ("c04-ready-off-by-one", "scheduler/base.py", "        if self.unsatisfied == 0 and self.state.notstarted():", "        if self.unsatisfied <= 1 and self.state.notstarted():", ["C04", "C08"]),
    ("c04-no-pretask-deps", "core/objects.py", "        for pre_task in self.pre_tasks:\n            pre_task.__xpm__.updatedependencies(\n                dependencies, path + [\"__pre_tasks__\"], taskids\n            )", "        pass", ["C04"]),
    # C05
    ("c05-register-never-returns", "scheduler/base.py", "                logger.warning(\"Job %s already submitted\", job.identifier)\n                return other", "                logger.warning(\"Job %s already submitted\", job.identifier)\n                self.xp.unfinishedJobs += 1", ["C05"]),
    (
        "c05-no-done-shortcircuit",
        "scheduler/base.py",
        ["        if job.donepath.exists():\n            job.state = JobState.DONE\n\n        # Check if we have a running process", "        # Check if done\n        if job.donepath.exists():\n            job.state = JobState.DONE\n"],
        ["        # Check if we have a running process", "        # Check if done\n"],
        ["C05"],
    ),
    ("c05-ignore-pidfile", "commandline.py", "        if self.pidpath.is_file():\n            # Get from pidpath file", "        if False and self.pidpath.is_file():\n            # Get from pidpath file", ["C05"]),
    # C06
    ("c06-revert-fix2", "scheduler/base.py", "        if self.unsatisfied == 0 and self.state.notstarted():", "        if self.unsatisfied == 0:", ["C06"]),
    ("c06-revert-fix3", "scheduler/base.py", "                self.xp.unfinishedJobs += 1\n                self.jobs[job.identifier] = job\n            else:", "            else:", ["C06"]),
    ("c06-revert-fix4", "scheduler/base.py", "                if state == JobState.WAITING and job.unsatisfied == 0:", "                if False:", ["C06", "C09"]),
    ("c06-no-notify-exit", "scheduler/base.py", "            logging.debug(\"Updated number of unfinished jobs\")\n            self.xp.central.exitCondition.notify_all()", "            logging.debug(\"Updated number of unfinished jobs\")", ["C06"]),
    ("c06-nonzero-is-done", "scheduler/base.py", "                    state = JobState.DONE if code == 0 else JobState.ERROR\n\n            except JobError:", "                    state = JobState.DONE\n\n            except JobError:", ["C06", "C07"]),
    # C07
    ("c07-fail-not-error", "scheduler/base.py", "            if self.state.notstarted():\n                self.state = JobState.ERROR\n                self.failure_status = JobFailureStatus.DEPENDENCY\n                self._readyEvent.set()", "            pass", ["C07", "C06"]),
    ("c07-no-dependents-recheck", "scheduler/base.py", "            for dependency in dependents:\n                logger.debug(\"Checking dependency %s\", dependency)\n                self.loop.call_soon(dependency.check)", "            pass", ["C07", "C06", "C04"]),
    ("c07-no-failedjobs", "scheduler/base.py", "        if job.state != JobState.DONE:\n            self.xp.failedJobs[job.identifier] = job", "        pass", ["C07"]),
    # C08
    ("c08-acquire-no-update", "tokens.py", "        with self.lock, self.ipc_lock:\n            self._update()\n            if self.available < dependency.count:", "        with self.lock, self.ipc_lock:\n            if self.available < dependency.count:", ["C08"]),
    ("c08-lockerror-swallowed", "scheduler/base.py", "                                dependency.check()\n                                return JobState.WAITING", "                                pass", ["C08"]),
    ("c08-acquire-no-check", "tokens.py", "            if self.available < dependency.count:\n                logger.warning(\n                    \"Not enough available", "            if False:\n                logger.warning(\n                    \"Not enough available", ["C08"]),
    # C09
    ("c09-no-file-delete", "tokens.py", "                self.available += tf.count\n                logging.debug(\"%s: available %d\", self, self.available)\n                tf.delete()", "                self.available += tf.count\n                logging.debug(\"%s: available %d\", self, self.available)", ["C09"]),
    ("c09-abort-keeps-locks", "locking.py", "        if not self.detached and self._level == 1:\n            self._level -= 1\n            self._release()", "        if not self.detached and self._level == 1 and not getattr(self, 'locks', None):\n            self._level -= 1\n            self._release()", ["C09", "C06"]),
    ("c09-notify-threshold", "tokens.py", "        def check(dependency: Dependency):\n            if self.available > 0:", "        def check(dependency: Dependency):\n            if self.available > 1:", ["C09", "C06"]),
    ("c09-revert-fix5", "tokens.py", "        except ValueError:\n            # The token file has been created by another process but is not\n            # written yet: a \"modified\" event will follow\n            logger.debug(\"Token file %s is not complete yet\", path)\n", "", ["C09"]),
    ("c09-revert-fix16", "tokens.py", "                    dependency.name,\n                )\n            else:", "                    dependency.name,\n                )\n                return\n            else:", ["C09", "C06"]),
    ("c09-reclaim-no-delete", "tokens.py", "                process.wait()\n\n            self.delete()", "                process.wait()", ["C09"]),
    # C10
    ("c10-done-before-body", "run.py", "                rmfile(self.failedpath)\n                self.started = True\n                run(workdir / \"params.json\")", "                rmfile(self.failedpath)\n                self.started = True\n                self.donepath.touch()\n                run(workdir / \"params.json\")", ["C10"]),
    ("c10-no-failed-marker", "run.py", "        self.failedpath.write_text(str(code))\n        self.cleanup()", "        self.cleanup()", ["C10"]),
    ("c10-stale-failed-kept", "run.py", "                rmfile(self.failedpath)\n                self.started = True", "                self.started = True", ["C10"]),
    ("c10-done-not-consulted", "run.py", "            if self.donepath.is_file():\n                logger.info(\"Job already completed\")\n            else:", "            if False:\n                logger.info(\"Job already completed\")\n            else:", ["C10"]),
    ("c10-revert-fix6", "run.py", "            if remove_cleanup:\n                atexit.unregister(self.cleanup)", "            atexit.unregister(self.cleanup)", ["C10"]),
    ("c10-no-sigterm-handler", "run.py", "        sigterm_handler = signal.signal(signal.SIGTERM, self.handle_error)", "        sigterm_handler = signal.getsignal(signal.SIGTERM)", ["C10"]),
    ("c10-cleanup-keeps-pid", "run.py", "            rmfile(self.pidfile)\n            for lock in self.locks:", "            for lock in self.locks:", ["C10"]),
    # C11
    ("c11-ignore-pidfile", "commandline.py", "        if self.pidpath.is_file():\n            # Get from pidpath file", "        if False and self.pidpath.is_file():\n            # Get from pidpath file", ["C11"]),
    ("c11-revert-fix17", "tokens.py", "        # away): read the state again now that no change can be missed\n        with self.lock, self.ipc_lock:\n            self._update()\n", "", ["C11"]),
    ("c11-revert-fix18", "tokens.py", "                except ValueError:\n                    # Token files are written while holding the IPC lock: an", "                except KeyError:\n                    # Token files are written while holding the IPC lock: an", ["C11"]),
    ("c11-adopted-is-error", "scheduler/base.py", "        # Check if done\n        if job.donepath.exists():\n            job.state = JobState.DONE\n", "        # Check if done\n", ["C11", "C05"]),
    ("c11-done-marker-ignored-at-submit", "scheduler/base.py", ["        if job.donepath.exists():\n            job.state = JobState.DONE\n\n        # Check if we have a running process", "        # Check if done\n        if job.donepath.exists():\n            job.state = JobState.DONE\n"], ["        # Check if we have a running process", "        # Check if done\n"], ["C11"]),
    # C12
    ("c12-revert-fix7", "core/objects.py", "        if self.meta is not None:\n            state_dict[\"meta\"] = self.meta", "        if self.meta:\n            state_dict[\"meta\"] = self.meta", ["C12"]),
    ("c12-revert-fix14", "core/objects.py", "                o.__xpm__.init_tasks = [\n                    objects[init_task_id]\n                    for init_task_id in definition.get(\"init-tasks\", [])\n                ]", "                pass", ["C12", "C20"]),
    ("c12-ignored-not-serialized", "core/objects.py", "        jsonfields = state_dict[\"fields\"] = {}\n        for argument, value in self.xpmvalues():\n            with context.push", "        jsonfields = state_dict[\"fields\"] = {}\n        for argument, value in self.xpmvalues():\n            if argument.ignored and not argument.generator:\n                continue\n            with context.push", ["C12"]),
    ("c12-enum-by-value", "core/objects.py", "                \"value\": value.name,\n            }", "                \"value\": list(type(value))[0].name,\n            }", ["C12"]),
    ("c12-task-link-not-restored", "core/objects.py", "                if task_id := definition.get(\"task\", None):\n                    o.__xpm__.task = objects[task_id]", "                pass", ["C12"]),
    ("c12-float-as-int", "core/objects.py", "        elif isinstance(value, (int, float, str)):\n            return value\n", "        elif isinstance(value, float) and value == int(value) if isinstance(value, float) and value == value and abs(value) < 1e15 else False:\n            return int(value)\n\n        elif isinstance(value, (int, float, str)):\n            return value\n", ["C12"]),
    ("c12-tags-not-nested", "core/objects.py", "                super().__init__(recurse_task=True)\n                self.tags = {}", "                super().__init__(recurse_task=False)\n                self.tags = {}", ["C12"]),
    # C13
    ("c13-preprocess-always", "core/objects.py", "            if self.objects.is_constructed(id(config)):\n                return False, self.objects.retrieve(id(config))\n            return True, None", "            return True, None", ["C13"]),
    ("c13-pretask-dedup-by-position", "core/objects.py", "                for pre_task_id in definition.get(\"pre-tasks\", []):\n                    if pre_task_id not in completed_pretasks:", "                for ix, pre_task_id in enumerate(definition.get(\"pre-tasks\", [])):\n                    if ix not in completed_pretasks:\n                        completed_pretasks.add(ix)\n                        pre_tasks.append(objects[pre_task_id])\n                    if False:", ["C13"]),
    ("c13-init-before-pre", "core/objects.py", "                for pre_task in pre_tasks:\n                    logger.info(\"Executing pre-task %s\", type(pre_task))\n                    pre_task.execute()\n                for init_task in init_tasks:\n                    logger.info(\"Executing init task %s\", type(init_task))\n                    init_task.execute()", "                for init_task in init_tasks:\n                    init_task.execute()\n                for pre_task in pre_tasks:\n                    pre_task.execute()", ["C13"]),
    ("c13-postinit-before-attrs", "core/objects.py", "            for key, value in values.items():\n                setattr(stub, key, value)\n\n            # Call __post_init__\n            stub.__post_init__()", "            stub.__post_init__()\n            for key, value in values.items():\n                setattr(stub, key, value)", ["C13"]),
    ("c13-pretask-gathered-by-key", "core/objects.py", "                self.pre_tasks[id(pre_task)] = self.stub(pre_task)", "                self.pre_tasks[len(self.pre_tasks)] = self.stub(pre_task)", ["C13"]),
    ("c13-no-store-memo", "core/objects.py", "            o = self.objects.retrieve(id(config))\n\n            if o is None:", "            o = None\n\n            if o is None:", ["C13"]),
    # C16
    ("c16-backup-always-removed", "scheduler/base.py", "            if exc_type is None and self.jobsbakpath.is_dir():", "            if self.jobsbakpath.is_dir():", ["C16"]),
    ("c16-old-links-not-moved", "scheduler/base.py", "                    else:\n                        # Rename otherwise\n                        target.parent.mkdir(parents=True, exist_ok=True)\n                        p.rename(target)", "                    else:\n                        p.unlink()", ["C16"]),
    ("c16-job-not-linked", "scheduler/base.py", "        if path.is_symlink():\n            path.unlink()\n        path.symlink_to(job.path)", "        if path.is_symlink():\n            path.unlink()", ["C16"]),
    ("c16-no-xp-lock", "scheduler/base.py", "            self.xplock = self.workspace.connector.lock(self.xplockpath, 0).__enter__()", "            self.xplock = None", ["C16"]),
    ("c16-links-not-cleared", "scheduler/base.py", "            for p in self.jobspath.glob(\"*/*\"):\n                if p.is_symlink():", "            for p in self.jobspath.glob(\"*/*\"):\n                if False:", ["C16"]),
    ("c16-duplicate-kept-in-jobs", "scheduler/base.py", "                    if target.is_symlink():\n                        # Remove if duplicate\n                        p.unlink()", "                    if target.is_symlink():\n                        pass", ["C16"]),
    ("c16-link-to-xp-dir", "scheduler/base.py", "        path.symlink_to(job.path)", "        path.symlink_to(job.path.parent)", ["C16"]),
    ("c06-depfail-marks-running-job-error", "scheduler/base.py", "            if self.state.notstarted():\n                self.state = JobState.ERROR", "            if not self.state.finished():\n                self.state = JobState.ERROR", ["C06"]),
    ("c10-revert-swallowed-exit", "run.py", "            if e.code == 0 and not self.failed:", "            if e.code == 0:", ["C10"]),
    ("c10-revert-failed-beside-done", "run.py", "        if not self.donepath.is_file():\n            # (no failure marker for a task that has already succeeded)\n            self.failedpath.write_text(str(code))", "        self.failedpath.write_text(str(code))", ["C10"]),
    ("c04-copy-dependencies-drops-task", "core/objects.py", "            assert self.__xpm__.task is None\n            self.__xpm__.task = other.__xpm__.task", "            assert self.__xpm__.task is None", ["C04"]),
    ("c09-revert-on-deleted-lock", "tokens.py", "        with self.lock:\n            fc = self.cache.pop(name, None)\n            if fc is not None:", "        fc = None\n        if name in self.cache and (__import__('time').sleep(0) or True):\n            fc = self.cache.pop(name, None)\n            if fc is not None:", ["C09"]),
    ("c12-revert-enum-serialization-order", "core/objects.py", "        elif isinstance(value, Enum):\n            # (before int/str: the members of an IntEnum or of a str-based\n            # enumeration are ints/strings too)\n            return {", "        elif isinstance(value, Enum) and not isinstance(value, (int, str)):\n            return {", ["C12"]),
    # C20
    ("c20-deprecate-keeps-id", "core/types.py", "        self.identifier = parent.identifier\n        self._deprecated = True", "        self._deprecated = True", ["C20"]),
    ("c20-cleanup-removes", "tools/jobs.py", "                        oldjobpath.rename(newjobpath)", "                        import shutil\n                        shutil.rmtree(oldjobpath)", ["C20"]),
    ("c20-link-wrong-dir", "tools/jobs.py", "                        newjobpath.symlink_to(oldjobpath)", "                        newjobpath.symlink_to(oldjobpath.parent)", ["C20"]),
    ("c20-revert-fix14", "core/objects.py", "                o.__xpm__.init_tasks = [\n                    objects[init_task_id]\n                    for init_task_id in definition.get(\"init-tasks\", [])\n                ]", "                pass", ["C20"]),
    ("c20-dangling-not-replaced", "tools/jobs.py", "                if newjobpath.is_symlink() and not newjobpath.exists():\n                    newjobpath.unlink()", "                pass", ["C20"]),
    ("c20-cleanup-deletes-links-only", "tools/jobs.py", "            if job_path.parent.is_symlink():\n                job_path.parent.unlink()\n                logger.info(\"Removing symlink %s\", job_path.parent)", "            if job_path.parent.is_symlink():\n                import shutil\n                shutil.rmtree(job_path.parent.resolve())\n                job_path.parent.unlink()", ["C20"]),
    # C19
    ("c19-perform-ignored", "cli/jobs.py", "            if perform:\n                cprint(\"Cleaning...\", \"red\")\n                rmtree(p)", "            if True:\n                cprint(\"Cleaning...\", \"red\")\n                rmtree(p)", ["C19"]),
    ("c19-clean-not-finished", "cli/jobs.py", "        if clean and info.state and info.state.finished():", "        if clean and info.state:", ["C19"]),
    ("c19-orphans-ignore-bak", "cli/__init__.py", "        paths = chain((path / \"xp\").glob(\"*/jobs\"), (path / \"xp\").glob(\"*/jobs.bak\"))", "        paths = (path / \"xp\").glob(\"*/jobs\")", ["C19"]),
    ("c19-revert-orphans-link-target", "cli/__init__.py", "        if key not in xpjobs and jobpath.resolve() not in xptargets:", "        if key not in xpjobs:", ["C19"]),
    ("c19-orphans-rmtree-link", "cli/__init__.py", "                if jobpath.is_symlink():\n                    jobpath.unlink()\n                else:\n                    rmtree(jobpath)", "                rmtree(jobpath)", ["C19"]),
    ("c19-experiment-by-taskname", "cli/jobs.py", ["                job2xp.setdefault(job_path, set()).add(p.name)", "            xps = job2xp.get(p, set())"], ["                job2xp.setdefault(job_path.parent.name, set()).add(p.name)", "            xps = job2xp.get(p.parent.name, set())"], ["C19"]),
    ("c19-experiment-ignored", "cli/jobs.py", "            if experiment and experiment not in xps:\n                continue", "            pass", ["C19"]),
    ("c19-notin-as-in", "cli/filter.py", "        return value not in self.values", "        return value in self.values", ["C19"]),
    ("c19-revert-fix12", "cli/filter.py", "varQuotedString = quotedString.copy()", "varQuotedString = quotedString", ["C19"]),
    ("c19-revert-state-order", "cli/filter.py", "        if (self.path / f\"{self.scriptname}.pid\").is_file():\n            return JobState.RUNNING\n        if (self.path / f\"{self.scriptname}.failed\").is_file():\n            return JobState.ERROR", "        if (self.path / f\"{self.scriptname}.failed\").is_file():\n            return JobState.ERROR\n        if (self.path / f\"{self.scriptname}.pid\").is_file():\n            return JobState.RUNNING", ["C19"]),
    ("c19-or-as-and", "cli/filter.py", "        return self.y.filter(information) or self.x.filter(information)", "        return self.y.filter(information) and self.x.filter(information)", ["C19"]),
    ("c19-regex-search", "cli/filter.py", "        return self.regex.match(value)", "        return self.regex.match(value[1:])", ["C19"]),
    ("c19-filter-ignored-by-clean", "cli/jobs.py", "            if filter:\n                if not _filter(info):\n                    continue", "            if False:\n                pass", ["C19"]),
    # C14
    # (equivalent, not used: Sealer(recurse_task=False) - producing tasks are always sealed by their own submission)
    ("c14-walk-skips-pretasks", "core/objects.py", "            if info.pre_tasks:\n                with self.map(\"__pre_tasks__\"):\n                    self(info.pre_tasks)", "            if False:\n                pass", ["C14", "C13"]),
    ("c14-walk-skips-dict-values", "core/objects.py", "                with self.map(key):\n                    result[key] = self(value)", "                result[key] = value", ["C14", "C17", "C13"]),
    ("c14-pretask-no-sealed-check", "core/objects.py", "        if self.__xpm__._sealed:\n            raise SealedError(\"Cannot add pre-tasks to a sealed configuration\")", "        pass", ["C14"]),
    ("c14-setmeta-no-assert", "core/objects.py", "        assert not self._sealed, \"Configuration is sealed\"\n        self._meta = value", "        self._meta = value", ["C14"]),
    ("c14-set-no-sealed-check", "core/objects.py", "        if self._sealed and not bypass:\n            raise AttributeError(f\"Object is read-only (trying to set {k})\")", "        pass", ["C14"]),
    # C15
    ("c15-int-truncates", "core/types.py", "            if rest != 0:\n                raise TypeError(f\"Value {value} is not an integer but a float\")", "            pass", ["C15"]),
    ("c15-array-no-elements", "core/types.py", "        return [self.type.validate(x) for x in value]", "        return list(value)", ["C15"]),
    ("c15-dict-no-keys", "core/types.py", "            self.keytype.validate(key): self.valuetype.validate(value)", "            key: self.valuetype.validate(value)", ["C15"]),
    ("c15-revert-fix8", "core/objects.py", "                elif isinstance(value, list):\n                    for el in value:\n                        validate_value(el)", "                elif False:\n                    pass", ["C15"]),
    ("c15-revert-fix9", "core/types.py", "            raise ValueError(f\"None is not a configuration of type {self.basetype}\")", "            return None", ["C15"]),
    ("c15-float-accepts-str", "core/types.py", "        if not isinstance(value, (float, int)):\n            raise TypeError(\"value is not a float\")\n        return float(value)", "        return float(value)", ["C15"]),
    ("c15-subclass-check-dropped", "core/types.py", "        if not isinstance(value, types):\n            raise ValueError(", "        if False:\n            raise ValueError(", ["C15"]),
    # C17
    ("c17-list-index-not-pushed", "core/objects.py", "    def list(self, i: int):\n        return self.context.push(str(i))", "    def list(self, i: int):\n        return self.context.push(\"item\")", ["C17"]),
    ("c17-context-path", "generators.py", "            path = context.currentpath() / Path(self.path)", "            path = context.path / Path(self.path)", ["C17"]),
    ("c17-position-not-restored", "core/objects.py", "        finally:\n            self._configpath = p", "        finally:\n            pass", ["C17"]),
    ("c17-out-prefix-is-parent", "core/objects.py", "            self._configpath = (Path(\"out\") if p is None else p) / key", "            self._configpath = (Path(\"..\") if p is None else p) / key", ["C17"]),
    # C18
    ("c18-revert-cpu", "launcherfinder/specs.py", "return self.memory < other.memory or self.cores < other.cores", "return self.memory < other.memory and self.cores < other.cores", ["C18"]),
    ("c18-revert-and", "launcherfinder/specs.py", "        newself = deepcopy(self)\n        newself._add(other)", "        newself = copy(self)\n        newself._add(other)", ["C18"]),
    ("c18-no-duration", "launcherfinder/specs.py", "        if host.max_duration > 0 and self.duration > host.max_duration:\n            return None\n", "", ["C18"]),
    ("c18-no-gpu-count", "launcherfinder/specs.py", "            if len(host.cuda) < len(self.cuda_gpus):", "            if False:", ["C18"]),
    ("c18-days-as-hours", "launcherfinder/parser.py", 'return specs.duration(" ".join(children))', 'return specs.duration(" ".join(children).replace("d", "h").replace("hays", "h"))', ["C18"]),
    ("c18-union-last", "launcherfinder/specs.py", "                if match.score > max_score:", "                if match.score >= max_score:", ["C18"]),
]


def run(name, file, old, new, checks):
    dst = Path("/dev/shm") / f"verif-mut-{os.getpid()}"
    if dst.exists():
        shutil.rmtree(dst)
    shutil.copytree("/repo/src", dst / "src", ignore=shutil.ignore_patterns("__pycache__"))
    p = dst / SRC / file
    s = p.read_text()
    olds, news = ([old], [new]) if isinstance(old, str) else (old, new)
    for o, n in zip(olds, news):
        if s.count(o) != 1:
            shutil.rmtree(dst)
            return {"name": name, "error": f"pattern occurs {s.count(o)} times: {o[:60]!r}"}
        s = s.replace(o, n)
    p.write_text(s)
    res = {"name": name, "results": {}}
    try:
        for c in checks:
            env = dict(os.environ, VERIF_REPO=str(dst), VERIF_KEEP="0", VERIF_EVIDENCE_DIR=str(dst / "evidence"), VERIF_REPLAY_DIR=str(dst / "replays"))
            t0 = time.time()
            pr = subprocess.run([str(HERE / "vcheck"), c, "--tier", "quick"], env=env, capture_output=True, text=True, cwd=str(HERE), timeout=1800)
            viol = [l for l in pr.stdout.splitlines() if l.startswith("VIOLATION")]
            mech = [l for l in pr.stdout.splitlines() if l.startswith("# violations by mechanism")]
            res["results"][c] = {"rc": pr.returncode, "violations": len(viol), "mech": mech[:1], "wall": round(time.time() - t0, 1), "tail": pr.stdout.splitlines()[-2:] if pr.returncode not in (0, 1) else []}
    finally:
        shutil.rmtree(dst, ignore_errors=True)
    return res


def main():
    sel = sys.argv[1:]
    out = []
    for m in MUTATIONS:
        if sel and not any(x in m[0] for x in sel):
            continue
        r = run(*m)
        out.append(r)
        caught = [c for c, v in r.get("results", {}).items() if v["rc"] == 1]
        print(f"{m[0]:32s} caught by {caught} " + ("" if caught else f"MISSED {json.dumps(r)[:400]}"), flush=True)
    with open(HERE / "tools" / "muttest.log", "a") as f:
        for r in out:
            f.write(json.dumps(r) + "\n")


if __name__ == "__main__":
    main()
