#!/bin/sh
# tools/seedround.sh <worktree> <name> <property> [<other checks>...]: collect, verify and check one sub-agent seed
wt=$1; name=$2; prop=$3; shift 3
cd "$(dirname "$0")/.."
tools/seedtool.py collect "$wt" "$name" "$prop" && tools/seedtool.py verify "$name" && tools/seedtool.py check "$name" "$prop" "$@"
