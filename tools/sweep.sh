#!/bin/sh
# Seed sweep: tools/sweep.sh <tier> <seed>...   (evidence and replays go to a scratch directory)
tier=$1; shift
cd "$(dirname "$0")/.."
out=/dev/shm/verif-sweep-$$
mkdir -p $out
for seed in "$@"; do
  for c in C01 C02 C03 C04 C05 C06 C07 C08 C09 C10 C11 C12 C13 C14 C15 C16 C17 C18 C19 C20; do
    VERIF_SEED=$seed VERIF_EVIDENCE_DIR=$out/ev VERIF_REPLAY_DIR=$out/rp ./vcheck $c --tier $tier 2>&1 | grep -E "^(C[0-9]+ |INCONCLUSIVE|# |KNOWN)" | cut -c1-300 | tail -4
  done
done
rm -rf $out
