"""C06 – every job reaches a truthful, stable final state and the experiment exits (Engine B)."""
from xvgen.plans import PlanProfile

from . import engb_common as E

PROPERTY = "C06"
LEVEL = "exploration"
RULE = (
    "generated plans (1-6 jobs; chains, diamonds, fans, forests, random DAGs; every embedding kind; 0-2 file tokens with "
    "heterogeneous requests; exit codes; re-submission after failure; foreign token activity; a previous run of the same "
    "experiment) x seeded schedules of the controlled engine; non-trivial = >= 2 jobs with an edge or a token; distinct = "
    "distinct (plan, decision trace)"
)
ASSUMPTIONS = [
    "liveness is decided as bounded progress: at terminal quiescence (plan exhausted, no pending external event) nothing can ever move again, so a non-final job or an unfinished experiment.wait() is a definite hang",
    "job processes are simulated: selecting a process's waiter is its exit, which writes the runner's markers; the task runner itself is covered by C10",
    "asyncio's own FIFO order inside the loop is never perturbed",
]
SHARDS = E.SHARDS
TIMEOUT = E.TIMEOUT
MINIMUMS = {
    "quick": {"feature:cleaned": 40, "distinct_plan_trace": 2000, "launch_events": 4000, "feature:resubmit": 50, "feature:fail": 100, "feature:foreign": 30, "dependency_failed_under_reattached_job": 1},
    "thorough": {"distinct_plan_trace": 80000, "launch_events": 150000, "feature:resubmit": 2000, "feature:fail": 4000, "feature:foreign": 1000, "dependency_failed_under_reattached_job": 100},
}
PROFILES = [
    PlanProfile(tokens=2, p_fail=0.0),
    PlanProfile(tokens=1, p_fail=0.3, p_resubmit=0.6),
    PlanProfile(tokens=2, p_fail=0.15, p_resubmit=0.5, foreign=0.6, two_tokens=0.5),
    PlanProfile(tokens=0, p_fail=0.3, p_resubmit=0.5, multi_run=0.5),
    PlanProfile(tokens=1, p_fail=0.1, multi_run=0.6, p_dup=0.3),
    PlanProfile(tokens=0, p_fail=0.1, multi_run=1.0, p_abort=0.2, p_clean=0.9, p_edge=0.6),
    # an aborted first run leaves job processes behind; the result of what they depend on is removed, runs again and
    # fails while the re-attached dependents are still running
    PlanProfile(tokens=0, max_jobs=5, multi_run=1.0, p_abort=0.9, p_clean=1.0, p_edge=0.7, abort_late=True),
    PlanProfile(tokens=0, max_jobs=5, multi_run=1.0, p_abort=1.0, p_clean=1.0, p_edge=0.6, abort_late=True),
]
worker = E.make_worker(PROPERTY, PROFILES, {"quick": 1280, "thorough": 32000}, {"quick": 5, "thorough": 5})
replay = E.make_replay(PROPERTY)
