"""Shared driver of the Engine-B checks (C04-C09): generate plans, execute each under several seeded
schedules, keep the violations that refute the check's own property."""
import json
import random

from xvcore import h12
from xvgen import plans, xpctx
from xvengine import planrun

TIMEOUT = {"quick": 2400, "thorough": 14400}
SHARDS = {"quick": 16, "thorough": 16}


def run_one(ctx, prop, plan, seed, decisions=None):
    res = planrun.run_plan(plan, seed, ctx.scratch, decisions=decisions)
    ctx.count("schedules")
    ctx.count("driver_steps", res["steps"])
    ctx.count("launch_events", sum(1 for e in res["events"] if e[0] == "launch"))
    ctx.count("exit_events", sum(1 for e in res["events"] if e[0] == "exit"))
    ctx.count("generate_only_runs", sum(1 for e in res["events"] if e[0] == "generate-only-run"))
    ctx.count("generate_only_runs_over_a_backup", sum(1 for e in res["events"] if e[0] == "generate-only-run" and e[1] > 0))
    ctx.count("blocks_left_normally_with_failure", sum(1 for e in res["events"] if e[0] == "block-left-normally" and e[1] == "FailedExperiment"))
    ctx.count("blocks_left_normally_without_failure", sum(1 for e in res["events"] if e[0] == "block-left-normally" and e[1] == "no failure"))
    ctx.count("dependency_failed_under_reattached_job", sum(1 for e in res["events"] if e[0] == "dependency-failed-under-reattached-job"))
    ctx.distinct(res["trace"], "distinct_traces")
    ctx.distinct([plan["jobs"], plan["runs"], res["trace"]], "distinct_plan_trace")
    if res["inconclusive"]:
        ctx.count("inconclusive_runs")
        ctx.inconclusive(f"engine: {res['inconclusive']}")
        return res
    seen = set()
    for v in res["violations"]:
        if prop in v["properties"] and v["mechanism"] not in seen:
            seen.add(v["mechanism"])
            ctx.violation(
                v["mechanism"],
                v["message"],
                {"events": res["events"][:60], "trace_len": len(res["trace"])},
                replay={"plan": plan, "seed": seed, "decisions": res["trace"]},
            )
        elif prop not in v["properties"]:
            ctx.count("other_property_violations")
    return res


def make_worker(prop, profiles, n_plans, traces, nontrivial=None):
    def worker(ctx):
        xpctx.quiet()
        n = max(1, n_plans[ctx.tier] // ctx.nshards)
        k = traces[ctx.tier]
        with xpctx.stderr_to_devnull():
            for i in range(n):
                prof = profiles[i % len(profiles)]
                plan = plans.gen_plan(ctx.rng, prof)
                for f in plans.plan_features(plan):
                    ctx.count("feature:" + f)
                nt = (nontrivial or plans.nontrivial)(plan)
                first = None
                for t in range(k):
                    seed = ctx.rng.randrange(10**9)
                    res = run_one(ctx, prop, plan, seed)
                    if first is None:
                        first = res
                    ctx.case({"plan": plan, "trace": h12(res["trace"])}, nontrivial=nt, sample={"plan": plan, "trace": res["trace"][:40], "events": res["events"][:20]}, max_samples=2)

    return worker


def make_replay(prop):
    def replay(ctx, w):
        xpctx.quiet()
        with xpctx.stderr_to_devnull():
            res = run_one(ctx, prop, w["plan"], w["seed"], decisions=w["decisions"])
        print("replayed", len(res["trace"]), "decisions; violations:", [v["mechanism"] for v in res["violations"]])

    return replay
