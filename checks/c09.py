"""C09 – tokens are always given back and waiting jobs eventually run (Engine B part)"""
from xvgen.plans import PlanProfile

from . import enga_common as A
from . import engb_common as E

PROPERTY = "C09"
LEVEL = "exploration"
RULE = (
    "plans as in C08 plus failing jobs, aborted starts (second token or job lock not obtained after the first token was taken), foreign activity with token files that are created before they are written, a previous aborted run whose job processes still hold tokens; at terminal quiescence: no token file left, a fresh recount shows the full capacity, the in-memory availability is exact without foreign activity, no job waits while its request fits; non-trivial = >= 2 jobs under a token; distinct = distinct (plan, decision trace)"
)
ASSUMPTIONS = [
    "job processes are simulated (launch = SimProcessBuilder.start, exit = the driver selecting the process's waiter); the task runner itself is covered by C10",
    "other processes sharing a token directory are modelled by a driver-serialised foreign agent (a second real CounterToken object): its sections run atomically, as they do under the inter-process lock",
    "asyncio's own FIFO order inside the loop is never perturbed; helper-thread completions, cross-thread posts, process exits and filesystem notifications are delivered in seeded orders",
    "liveness is decided as bounded progress at terminal quiescence (nothing pending, foreign agent holds nothing)",
]
SHARDS = E.SHARDS
TIMEOUT = E.TIMEOUT
MINIMUMS = {"quick": {"enga_runs": 10, "directed_races": 24, "directed_race:reclaim-during-second-update": 3, "distinct_plan_trace": 3000, "launch_events": 8000, "feature:foreign": 120, "feature:foreign:twostep": 50, "feature:tokens:2": 60}, "thorough": {"distinct_plan_trace": 100000, "launch_events": 250000, "feature:foreign": 3000, "feature:foreign:twostep": 2000, "feature:tokens:2": 2000}}
PROFILES = [PlanProfile(tokens=1, p_token=0.9, max_jobs=7, p_edge=0.2, p_fail=0.2), PlanProfile(tokens=2, p_token=0.9, two_tokens=0.7, p_edge=0.2), PlanProfile(tokens=1, p_token=0.9, foreign=0.9, twostep=0.7, p_edge=0.2), PlanProfile(tokens=2, p_token=0.8, foreign=0.7, twostep=0.5, two_tokens=0.5, p_fail=0.2), PlanProfile(tokens=1, p_token=0.9, multi_run=0.7, p_abort=0.8)]
_engb_worker = E.make_worker(PROPERTY, PROFILES, {"quick": 1920, "thorough": 40000}, {"quick": 5, "thorough": 6}, nontrivial=lambda plan: sum(1 for j in plan["jobs"] if j["tokens"]) >= 2)
replay = E.make_replay(PROPERTY)


NREAL = {"quick": 1, "thorough": 8}  # Engine-A stress runs per shard


def worker(ctx):
    """Engine B part (controlled schedules) followed by the Engine A part (real scheduler processes)."""
    import os

    if not os.environ.get("XV_ONLY_ENGA"):  # (exploration aid: only the real-process part)
        _engb_worker(ctx)
    for _ in range(NREAL[ctx.tier]):
        A.run_stress(ctx, PROPERTY, "token-kill", ctx.rng)
        for _ in range(2):
            A.run_directed_race(ctx, ctx.rng)
    # single-delay sweep over the statements of the token / lock code (quick: one statement per shard; thorough: all)
    pts = A.preemption_points()
    mine = pts[ctx.shard :: ctx.nshards]
    if ctx.tier == "quick":
        mine = [mine[ctx.rng.randrange(len(mine))]] if mine else []
    for pt in mine:
        A.run_stress(ctx, PROPERTY, "token-kill", ctx.rng, delay_at=pt)
