"""C11 – restarting a killed experiment adopts running jobs and repeats nothing (Engine A + K).

Run 1 is a real scheduler process executing a small plan with real job processes (bodies hold on go-files so that the
'running' phases are stable) and the crash-point injector armed on the scheduler's launch path (scheduler/base.py,
commandline.py, connectors/local.py, tokens.py, scriptbuilder.py) or killed by the harness at coarse phases with
SIGKILL / SIGTERM / SIGINT.  Run 2 executes the same plan to completion.  Offline oracle on the union of the task-side
logs: exactly one body execution per job overall, one job-script start per job (adoption, not relaunch), every job DONE
at the end of run 2, surviving job processes were not taken down with their scheduler, no token file left."""
import json
import os
import random
import shutil
import signal
import time
from pathlib import Path

from xvgen import xpctx
from xvengine import enga

PROPERTY = "C11"
LEVEL = "fault_enumeration"
RULE = (
    "crash points = line events of the scheduler's submit/start/run path (aio_submit, aio_start, aio_run, process builder, token acquire / "
    "token file creation, script writing) during a chain plan with a file token, each as the instant of SIGKILL (thorough: also SIGTERM, SIGINT, "
    "more plans), plus coarse phases {all submitted, job 0 running, job 1 running while job 0 done, all done} x 3 signals; non-trivial = the "
    "scheduler really died before the plan finished; distinct = distinct (plan, crash location, signal)"
)
ASSUMPTIONS = [
    "crash points are statement boundaries; the order of line events varies between runs (real threads), so the n-th event is a sampled, recorded location",
    "hangs are not decided by a timeout: a violation needs quiescence certificates (loop idle, no live job process, no token file, a job not final); anything else that exceeds the watchdog is inconclusive",
    "a job is adopted (not relaunched) when no second job-script start is recorded for it",
]
SHARDS = {"quick": 16, "thorough": 16}
MINIMUMS = {
    "quick": {"double_runs": 60, "scheduler_died_early": 40, "jobs_checked": 120, "coarse_phases": 15, "adoptions_observed": 4, "restarts_with_failing_job": 4},
    "thorough": {"double_runs": 1200, "scheduler_died_early": 800, "jobs_checked": 2400, "coarse_phases": 36, "adoptions_observed": 200},
}
TIMEOUT = {"quick": 2400, "thorough": 14400}
FILES = "experimaestro/scheduler/base.py,experimaestro/commandline.py,experimaestro/connectors/local.py,experimaestro/tokens.py,experimaestro/scriptbuilder.py,experimaestro/locking.py"
QUAL = "Scheduler.aio_submit,Scheduler.aio_start,Scheduler.aio_registerJob,CommandLineJob.aio_run,CommandLineJob.aio_process,CommandLineJob.prepare,LocalProcessBuilder.start,CounterToken.acquire,CounterToken.release,TokenFile.create,PythonScriptBuilder.write,Locks._release"

PLANS = {
    "chain-token": {"jobs": [{"x": 0, "tokens": [{"tok": 0, "n": 1}]}, {"x": 1, "deps": [{"on": 0, "how": "direct"}], "tokens": [{"tok": 0, "n": 1}]}], "tokens": [{"name": "c11tok", "total": 1}]},
    "chain": {"jobs": [{"x": 0}, {"x": 1, "deps": [{"on": 0, "how": "lst"}]}], "tokens": []},
    "diamond": {"jobs": [{"x": 0}, {"x": 1, "deps": [{"on": 0, "how": "direct"}]}, {"x": 2, "deps": [{"on": 0, "how": "direct"}], "cls": "TaskO"}, {"x": 3, "deps": [{"on": 1, "how": "lst"}, {"on": 2, "how": "art"}]}], "tokens": []},
    # the job that is running when the scheduler dies fails after the restart: the re-attached process decides
    "chain-fail": {"jobs": [{"x": 0, "mode": "raise"}, {"x": 1, "deps": [{"on": 0, "how": "direct"}]}], "tokens": [], "expect_states": {"0": "ERROR", "1": "ERROR"}, "expect_outcome": "FailedExperiment", "expect_starts": {"0": 1, "1": 0}},
    "two-token": {"jobs": [{"x": 0, "tokens": [{"tok": 0, "n": 2}]}, {"x": 1, "tokens": [{"tok": 0, "n": 1}]}, {"x": 2, "deps": [{"on": 0, "how": "direct"}], "tokens": [{"tok": 0, "n": 2}]}], "tokens": [{"name": "c11tok2", "total": 2}]},
}


def make_plan(name, case):
    p = json.loads(json.dumps(PLANS[name]))
    p["name"] = "xp"
    p["env"] = case.job_env(go=True)
    return p


def quiescent_hang(case, h, xs):
    """Decide a run-2 time-out on certificates, not on the clock."""
    certs = []
    for _ in range(5):
        c = case.certificates(h)
        if c:
            certs.append(c)
        time.sleep(0.3)
    if len(certs) < 4:
        return None
    same = all(c.get("jobs") == certs[0].get("jobs") for c in certs)
    idle = all(c.get("ready", 1) == 0 for c in certs)
    live = [p for p in case.job_pids() if case.alive(p)]
    notfinal = [k for k, s in (certs[-1].get("jobs") or {}).items() if s not in ("DONE", "ERROR")]
    if same and idle and not live and notfinal:
        # (token files may be left: with no live job process of the workspace nobody holds them legitimately)
        return f"scheduler quiescent for {len(certs)} certificates, no live job process, token files {case.token_files() or 'none'}, jobs not final: {certs[-1].get('jobs')}"
    return None


def double_run(ctx, planname, crash=None, phase=None, sig="SIGKILL", label=""):
    case = enga.Case(ctx.scratch / f"c{random.randrange(10**9)}")
    w = {"plan": planname, "crash": crash, "phase": phase, "signal": sig}
    try:
        plan = make_plan(planname, case)
        xs = [j["x"] for j in plan["jobs"]]
        if phase not in ("submitted", "job0-running"):
            case.release("go0")  # job 0 runs freely; the others hold until released
        # (in the two early coarse phases job 0 holds as well, so that the restarted scheduler finds it running)
        crashlog = case.base / "crash.log"
        env = None
        if crash is not None:
            env = {"VERIF_CRASH": f"{crash}:{sig}:{crashlog}", "VERIF_CRASH_FILES": FILES, "VERIF_CRASH_QUAL": QUAL, "VERIF_CRASH_ARM": "*"}
        h1 = case.start(plan, crash=env)
        died_early = False
        if phase is not None:
            # coarse phases: the harness sends the signal when the logs show the phase
            t0 = time.time()
            reached = False
            while time.time() - t0 < 40 and h1["proc"].poll() is None:
                ev = enga.parse_body(case.body_log())
                prog = case.progress(h1)
                if phase == "submitted" and any(l.startswith("submitted-all") for l in prog):
                    reached = True
                elif phase == "job0-running" and any(l.startswith("runner") for l in case.runner_log()):
                    reached = True
                elif phase == "job1-running" and any(e[0] == "start" and e[1] == 1 for e in ev):
                    reached = True
                elif phase == "all-done":
                    if not (case.go / "goall").exists() and any(e[0] == "start" and e[1] == 1 for e in ev):
                        case.release()
                    if len([e for e in ev if e[0] == "end"]) == len(xs):
                        reached = True
                if reached:
                    break
                time.sleep(0.01)
            if not reached:
                ctx.inconclusive(f"phase {phase} not reached: {case.progress(h1)[-3:]}")
                return
            try:
                os.kill(h1["proc"].pid, getattr(signal, sig))
            except ProcessLookupError:
                pass
            if sig == "SIGINT":
                case.wait_exit(h1, 30)
            else:
                case.wait_exit(h1, 10)
            died_early = True
        else:
            # injected crash point: let the plan progress until the scheduler dies or finishes
            steps = [3.0, 3.0, 6.0]
            for i, t in enumerate(steps):
                if case.wait_exit(h1, t):
                    break
                if i == 0:
                    for x in xs[1:]:
                        case.release(f"go{x}")
                elif i == 1:
                    case.release()
            if h1["proc"].poll() is None:
                case.wait_exit(h1, 30)
            rc = h1["proc"].poll()
            died_early = rc is not None and rc != 0 and case.result(h1) is None
            if rc is None:
                ctx.inconclusive("run 1 did not end")
                return
        where = crashlog.read_text().splitlines()[-1].split(" ", 1)[1] if crash is not None and crashlog.is_file() and crashlog.read_text().strip() else phase
        w["where"] = where
        ctx.count("double_runs")
        if died_early:
            ctx.count("scheduler_died_early")
        time.sleep(0.05)
        survivors = [p for p in case.job_pids() if case.alive(p)]
        runners_before = {l.split()[1]: int(l.split()[2]) for l in case.runner_log() if l.startswith("runner")}
        # adoption is possible only for a job whose process file was written before the scheduler died
        adoptable = set()
        for pf in case.ws.glob("jobs/*/*/*.pid"):
            try:
                if case.alive(int(json.loads(pf.read_text())["pid"])):
                    adoptable.add(str(pf.parent))
            except Exception:
                pass
        # ---- run 2: same plan, no injection
        h2 = case.start(plan, cert=True, extra_env={"XV_LOGLEVEL": "INFO"})
        ok2 = case.wait_progress(h2, "submitted-all", 15)
        if not ok2 and h1["proc"].poll() is None:
            # the first scheduler received the signal but is still there (it waits for its helper threads, i.e. for
            # its jobs) and keeps the experiment lock: nothing to adopt yet - let the jobs finish so that it can go
            ctx.count("first_scheduler_lingers")
            case.release()
        if not ok2 and not case.wait_progress(h2, "submitted-all", 60):
            if h2["proc"].poll() is not None:
                err = (case.base / f"{h2['tag']}.err").read_text()[-500:]
                ctx.violation("restart-fails", f"after {sig} at {where}: the second run ended before submitting its plan ({case.result(h2)}): {err}", w)
                return
            ctx.inconclusive(f"run 2 did not submit its plan in time ({w}, run 1 alive: {h1['proc'].poll() is None}, progress {case.progress(h2)})")
            return
        time.sleep(0.3)
        adopted = [p for p in survivors if case.alive(p)]
        if adopted:
            ctx.count("adoptions_observed")
        case.release()
        if not case.wait_exit(h2, 90):
            msg = quiescent_hang(case, h2, xs)
            if msg:
                # hang diagnosis: thread dump of the stuck scheduler and the state of the job directories
                try:
                    os.kill(h2["proc"].pid, signal.SIGUSR1)
                    time.sleep(0.5)
                    txt = (case.base / f"{h2['tag']}.err").read_text()
                    i = txt.find("Thread 0x")
                    names = [l.strip() for l in txt[i:].splitlines() if l.strip().startswith("File") and ("experimaestro" in l or "fasteners" in l)]
                    msg += " | threads: " + " ; ".join(names[:12])
                    msg += " | log: " + " ;; ".join(l for l in txt[:i].splitlines() if ("xpm" in l or "Error" in l or "rror" in l or "Traceback" in l or l.startswith("  File")) and "hash" not in l)[-2500:]
                    msg += " | progress: " + " ;; ".join(l for l in case.progress(h2) if l.startswith("job-coroutine-died"))[:1500]
                    msg += " | files: " + str(sorted(str(q.relative_to(case.ws)) for q in case.ws.glob("jobs/*/*/*") if q.suffix in (".pid", ".done", ".failed", ".lock")))
                except Exception:
                    pass
                ctx.violation("restart-hangs-at-quiescence", f"after {sig} at {where}: {msg}", w)
            else:
                ctx.inconclusive(f"run 2 exceeded the watchdog without a quiescence certificate ({case.certificates(h2)})")
            return
        r2 = case.result(h2)
        ev = enga.parse_body(case.body_log())
        starts_expected = {int(k): v for k, v in PLANS[planname].get("expect_starts", {}).items()}

        def rerun_after_failure(x):
            """A job whose body ended in failure before the restarted scheduler reached it is legitimately run again."""
            seq = [(e[0], e[3]) for e in ev if e[1] == x]
            if len(seq) < 4 or len(seq) % 2:
                return False
            return all(seq[i][0] == "start" and seq[i + 1][0] == "end" for i in range(0, len(seq), 2)) and all(seq[i + 1][1] is False for i in range(0, len(seq) - 2, 2))

        reran = {x for x in xs if rerun_after_failure(x)}
        if reran:
            ctx.count("failed_before_restart_and_run_again")
        for x, msg in enga.exactly_once(ev, [x for x in xs if starts_expected.get(x, 1) == 1 and x not in reran]):
            ctx.violation("body-not-exactly-once", f"after {sig} at {where}: job {x}: {msg} (log: {case.body_log()})", w)
        for x in xs:
            if starts_expected.get(x, 1) == 0 and any(e[0] == "start" and e[1] == x for e in ev):
                ctx.violation("dependent-of-failed-job-ran-after-restart", f"after {sig} at {where}: job {x} depends on a job that failed but its body ran (log: {case.body_log()})", w)
        ctx.count("jobs_checked", len(xs))
        if r2 is None:
            ctx.violation("restart-fails", f"after {sig} at {where}: run 2 wrote no result", w)
            return
        want_states = PLANS[planname].get("expect_states")
        want_outcome = PLANS[planname].get("expect_outcome", "returned")
        bad = {k: s for k, s in r2["states"].items() if s != (want_states[k] if want_states else "DONE")}
        if bad or r2["outcome"] != want_outcome:
            ctx.violation("restart-final-states" + (":failing-job" if want_states else ""), f"after {sig} at {where}: run 2 ended {r2['outcome']} with {r2['states']}" + (f", expected {want_outcome} with {want_states}" if want_states else ""), w)
        if want_states:
            ctx.count("restarts_with_failing_job")
        # adoption: exactly one job-script start per job overall
        per = {}
        for l in case.runner_log():
            if l.startswith("runner"):
                per[l.split()[1]] = per.get(l.split()[1], 0) + 1
        for script, n in per.items():
            if n != 1:
                if reran:
                    continue  # the first process had ended in failure: there was nothing left to adopt
                if str(Path(script).parent) in adoptable:
                    ctx.violation("job-relaunched-instead-of-adopted", f"after {sig} at {where}: job script {Path(script).parent.name[:12]} was started {n} times although its live process was recorded in the pid file", w)
                else:
                    # the scheduler died between spawning the process and recording it: nothing to adopt; the relaunch
                    # serialises behind the job lock and must not run the body again (checked above)
                    ctx.count("relaunch_behind_lock_without_pid_file")
        # survivors were not taken down with their scheduler: each has an end record
        for pid in survivors:
            if not any(e[0] == "end" and e[2] == pid for e in ev) and any(e[0] == "start" and e[2] == pid for e in ev):
                ctx.violation("job-process-died-with-scheduler", f"after {sig} at {where}: job process {pid} started its body but never ended it", w)
        if case.token_files():
            ctx.violation("token-file-left-after-restart", f"after {sig} at {where}: {case.token_files()}", w)
        ctx.case({"p": planname, "where": where, "s": sig}, nontrivial=died_early, sample={"plan": planname, "where": where, "signal": sig, "survivors": len(survivors), "log": case.body_log()}, max_samples=3)
    finally:
        case.cleanup()
        shutil.rmtree(case.base, ignore_errors=True)


def count_points(ctx, planname):
    case = enga.Case(ctx.scratch / f"log{random.randrange(10**9)}")
    try:
        plan = make_plan(planname, case)
        case.release()
        log = case.base / "points.log"
        h = case.start(plan, crash={"VERIF_CRASH": f"0:SIGKILL:{log}", "VERIF_CRASH_FILES": FILES, "VERIF_CRASH_QUAL": QUAL, "VERIF_CRASH_ARM": "*"})
        case.wait_exit(h, 90)
        return len(log.read_text().splitlines()) if log.is_file() else 0
    finally:
        case.cleanup()
        shutil.rmtree(case.base, ignore_errors=True)


def worker(ctx):
    xpctx.quiet()
    rng = ctx.rng
    plans = ["chain-token"] if ctx.tier == "quick" else list(PLANS)
    cases = []
    for pn in plans:
        npts = count_points(ctx, pn)
        if npts < 20:
            ctx.inconclusive(f"only {npts} crash points recorded for plan {pn}")
            return
        if ctx.shard == 0:
            ctx.count(f"points:{pn}", npts)
        step = 4 if ctx.tier == "quick" else 1
        sigs = ["SIGKILL"] if ctx.tier == "quick" else ["SIGKILL", "SIGTERM", "SIGINT"]
        for n in range(1, npts + 1, step):
            for s in sigs:
                cases.append((pn, n, None, s))
        for ph in ("submitted", "job0-running", "job1-running", "all-done"):
            if pn == "chain-fail" and ph in ("job1-running", "all-done"):
                continue  # job 1 never runs in that plan
            for s in ("SIGKILL", "SIGTERM", "SIGINT"):
                cases.append((pn, None, ph, s))
    if ctx.tier == "quick":
        for ph in ("submitted", "job0-running"):
            for s in ("SIGKILL", "SIGTERM", "SIGINT"):
                cases.append(("chain-fail", None, ph, s))
    cases.sort(key=lambda c: (c[0], c[1] or 0, c[2] or "", c[3]))
    for k, (pn, n, ph, s) in enumerate(cases):
        if k % ctx.nshards == ctx.shard:
            if ph is not None:
                ctx.count("coarse_phases")
            double_run(ctx, pn, crash=n, phase=ph, sig=s)


def evidence_extra(counters, sets):
    return {"crash_points_per_plan": {k[7:]: v for k, v in counters.items() if k.startswith("points:")}}


def replay(ctx, w):
    xpctx.quiet()
    double_run(ctx, w["plan"], crash=w.get("crash"), phase=w.get("phase"), sig=w.get("signal", "SIGKILL"))
