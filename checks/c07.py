"""C07 – failures are contained: dependents are cancelled, others still run (Engine B)"""
from xvgen.plans import PlanProfile

from . import engb_common as E

PROPERTY = "C07"
LEVEL = "exploration"
RULE = (
    "generated DAGs x subsets of failing jobs (random subsets; the driver decides when each failing process exits relative to the submission of its dependents) x seeded schedules; ground truth = plan edges + planned exit codes + markers at submission; non-trivial = >= 2 jobs, >= 1 edge and >= 1 failing job; distinct = distinct (plan, decision trace)"
)
ASSUMPTIONS = [
    "job processes are simulated (launch = SimProcessBuilder.start, exit = the driver selecting the process's waiter); the task runner itself is covered by C10",
    "other processes sharing a token directory are modelled by a driver-serialised foreign agent (a second real CounterToken object): its sections run atomically, as they do under the inter-process lock",
    "asyncio's own FIFO order inside the loop is never perturbed; helper-thread completions, cross-thread posts, process exits and filesystem notifications are delivered in seeded orders",
    "after a failed job was re-submitted and succeeded, either outcome of experiment.wait() is accepted (the statement does not settle it)",
]
SHARDS = E.SHARDS
TIMEOUT = E.TIMEOUT
MINIMUMS = {"quick": {"feature:cleaned": 40, "distinct_plan_trace": 2500, "launch_events": 4000, "feature:fail": 500, "blocks_left_normally_with_failure": 1000, "blocks_left_normally_without_failure": 300}, "thorough": {"distinct_plan_trace": 80000, "launch_events": 120000, "feature:fail": 15000}}
PROFILES = [PlanProfile(max_jobs=7, p_fail=0.35, p_edge=0.5), PlanProfile(max_jobs=5, p_fail=0.5, p_edge=0.6), PlanProfile(max_jobs=6, p_fail=0.3, tokens=1), PlanProfile(max_jobs=5, p_fail=0.3, multi_run=0.5), PlanProfile(max_jobs=5, p_fail=0.2, multi_run=1.0, p_abort=0.2, p_clean=0.9, p_edge=0.6)]
worker = E.make_worker(PROPERTY, PROFILES, {"quick": 960, "thorough": 32000}, {"quick": 5, "thorough": 5}, nontrivial=lambda plan: len(plan["jobs"]) >= 2 and any(j["deps"] for j in plan["jobs"]) and any(j["codes"][0] != 0 for j in plan["jobs"]))
replay = E.make_replay(PROPERTY)
