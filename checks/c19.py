"""C19 – job filters mean what they say; cleaning commands delete only what is selected.

Part 1 (filters): random filter expressions over tags, @state and @name ('=', 'in', 'not in', '~', and/or chains) are
rendered to text, compiled by the real createFilter and evaluated on random jobs; a reference evaluator written from the
documented meaning decides (for mixed and/or chains both the left-associative and the conventional-precedence reading
are accepted).
Part 2 (commands): real job directories (generate-only submissions: real params.json with tags) are put in every state
by rewriting marker files (done, failed, pid of a live process, none, failed + live pid), indexed by experiments with
jobs / jobs.bak links; 'jobs clean' and 'orphans' are invoked through click's CliRunner and the jobs tree is diffed
against the reference selection."""
import json
import os
import random
import re
import shutil
import signal
import subprocess
from pathlib import Path

from xvgen import xpctx

PROPERTY = "C19"
LEVEL = "exploration"
RULE = (
    "part 1: seeded filter expressions (1-4 atoms over string tags, @state, @name; both quote styles) x random tag/state "
    "assignments, >= 1 atom per operator; part 2: seeded workspace layouts (3-7 jobs in states done / failed / running / none / "
    "failed+running, 1-3 experiments with index and backup index, dangling links) x {clean with/without --perform and a tag filter, "
    "orphans with/without --clean}; non-trivial = expression with >= 2 atoms or a layout with >= 3 states present; distinct = "
    "distinct (expression, job) / (layout, command)"
)
ASSUMPTIONS = [
    "string-valued tags; a regular expression is anchored (^...$) so that match/search/fullmatch agree",
    "for 'a and b or c' chains both the left-associative and the conventional-precedence reading are accepted",
    "a job is running when the process recorded in its pid file is alive",
    "the index layout (xp/<name>/jobs/<task id>/<identifier> symlinks) is the one C16 checks the scheduler produces",
]
SHARDS = {"quick": 16, "thorough": 16}
MINIMUMS = {
    "quick": {"filter_evaluations": 100000, "op:=": 10000, "op:in": 10000, "op:not in": 10000, "op:~": 10000, "chains_mixed": 4000, "clean_cases": 900, "orphan_cases": 400, "dirs_deleted": 1000, "dirs_kept": 4000, "running_jobs_present": 1500, "linked_jobs_present": 80, "orphan_links_present": 50, "clean_cases_with_experiment": 250},
    "thorough": {"filter_evaluations": 600000, "op:=": 90000, "op:in": 90000, "op:not in": 90000, "op:~": 90000, "chains_mixed": 30000, "clean_cases": 5000, "orphan_cases": 4000, "dirs_deleted": 3000, "dirs_kept": 15000, "running_jobs_present": 2500, "linked_jobs_present": 800, "orphan_links_present": 500, "clean_cases_with_experiment": 2500},
}
N = {"quick": (32000, 1920), "thorough": (800000, 40000)}
TIMEOUT = {"quick": 2400, "thorough": 14400}

TAGS = ["model", "mode", "lr", "x"]
VALUES = ["bm25", "a", "b", "ab", "a b", "0.1", "RUNNING", "DONE", "x-y", "é", "", "0x1", "42", "d", "ddd"]  # the last four tell "\." from "." and "\d" from "d"
STATES = ["DONE", "ERROR", "RUNNING", None]
NAMES = ["xvmodels.zoo.taskt", "xvmodels.zoo.tasko", "my.task"]


def q(rng, s):
    quote = rng.choice(['"', "'"])
    if quote in s:
        quote = '"' if quote == "'" else "'"
    return f"{quote}{s}{quote}"


def gen_atom(rng):
    op = rng.choice(["=", "in", "not in", "~"])
    var = rng.choice(TAGS + ["@state", "@name"])
    pool = STATES[:3] if var == "@state" else (NAMES if var == "@name" else VALUES)
    if op == "=":
        if rng.random() < 0.15 and not var.startswith("@"):
            return {"op": "=", "var": var, "othervar": rng.choice(TAGS)}
        return {"op": "=", "var": var, "value": rng.choice(pool)}
    if op in ("in", "not in"):
        return {"op": op, "var": var, "values": rng.sample(pool, rng.randint(1, min(3, len(pool))))}
    v = rng.choice([x for x in pool if x])
    pat = rng.choice([re.escape(v), re.escape(v[:1]) + ".*", "[a-z0-9]+", ".*" + re.escape(v[-1:]), "(a|b)+", re.escape(v) + "?", r"\d+", r"\d\.\d", r"\w+", r"0\.1|\d\d"])
    return {"op": "~", "var": var, "pattern": "^" + pat + "$"}


def render_atom(rng, a):
    sp = lambda: rng.choice(["", " ", "  "])
    if a["op"] == "=":
        rhs = a["othervar"] if "othervar" in a else q(rng, a["value"])
        return f"{a['var']}{sp()}={sp()}{rhs}"
    if a["op"] in ("in", "not in"):
        return f"{a['var']} {a['op']} [{sp()}" + f"{sp()},{sp()}".join(q(rng, v) for v in a["values"]) + f"{sp()}]"
    return f"{a['var']}{sp()}~{sp()}{q(rng, a['pattern'])}"


def value_of(job, var):
    if var == "@state":
        return job["state"]
    if var == "@name":
        return job["name"]
    return job["tags"].get(var)


def ref_atom(a, job):
    v = value_of(job, a["var"])
    if a["op"] == "=":
        other = value_of(job, a["othervar"]) if "othervar" in a else a["value"]
        return v is not None and v == other
    if a["op"] == "in":
        return v is not None and v in a["values"]
    if a["op"] == "not in":
        return v is None or v not in a["values"]
    return bool(v) and re.match(a["pattern"], v) is not None


def ref_chain(atoms, ops, job):
    vals = [ref_atom(a, job) for a in atoms]
    left = vals[0]
    for o, v in zip(ops, vals[1:]):
        left = (left and v) if o == "and" else (left or v)
    # conventional precedence: 'and' binds tighter
    groups, cur = [], vals[0]
    for o, v in zip(ops, vals[1:]):
        if o == "and":
            cur = cur and v
        else:
            groups.append(cur)
            cur = v
    groups.append(cur)
    return {left, any(groups)}


class StubInfo:
    def __init__(self, job):
        from experimaestro.scheduler import JobState

        self.tags = job["tags"]
        self.state = JobState[job["state"]] if job["state"] else None
        self.path = Path("/ws/jobs") / job["name"] / "0123abcd"


def gen_job(rng):
    tags = {t: rng.choice(VALUES) for t in TAGS if rng.random() < 0.65}
    return {"tags": tags, "state": rng.choice(STATES), "name": rng.choice(NAMES)}


def part1(ctx, rng, n):
    from experimaestro.cli.filter import createFilter

    for _ in range(n):
        k = rng.choice([1, 1, 2, 2, 3, 4])
        atoms = [gen_atom(rng) for _ in range(k)]
        ops = [rng.choice(["and", "or"]) for _ in range(k - 1)]
        text = render_atom(rng, atoms[0])
        for o, a in zip(ops, atoms[1:]):
            text += f" {o} " + render_atom(rng, a)
        w = {"expression": text, "atoms": atoms, "ops": ops}
        try:
            f = createFilter(text)
        except Exception as e:
            ctx.violation("filter-does-not-compile:" + "+".join(sorted({a["op"] for a in atoms})), f"{text!r} raised {e!r}", w)
            continue
        if len(set(ops)) == 2:
            ctx.count("chains_mixed")
        for a in atoms:
            ctx.count("op:" + a["op"])
        for _ in range(6):
            job = gen_job(rng)
            if any("othervar" in a and value_of(job, a["var"]) is None and value_of(job, a["othervar"]) is None for a in atoms):
                continue  # two absent tags compared: the documentation does not say
            ctx.count("filter_evaluations")
            try:
                got = bool(f(StubInfo(job)))
            except Exception as e:
                ctx.violation("filter-raises:" + "+".join(sorted({a["op"] for a in atoms})), f"{text!r} on {job} raised {e!r}", dict(w, job=job))
                break
            want = ref_chain(atoms, ops, job)
            if got not in want:
                mech = "+".join(sorted({a["op"] for a in atoms})) if len(atoms) == 1 else "chain"
                ctx.violation("filter-means-otherwise:" + mech, f"{text!r} on {job}: compiled filter says {got}, documented meaning {sorted(want)}", dict(w, job=job))
                break
        ctx.case({"e": text}, nontrivial=k >= 2, sample={"expression": text}, max_samples=3)


# ---------------------------------------------------------------- part 2: commands on real workspaces
LAYOUT_STATES = ["done", "failed", "running", "none", "failed+running", "done", "failed"]


def make_workspace(ctx, rng, sleepers):
    """Real job directories through a generate-only experiment, then markers and indexes by hand."""
    from experimaestro import experiment
    from experimaestro.scheduler.workspace import RunMode
    from xvmodels import zoo

    wd = ctx.scratch / f"ws{rng.randrange(10**9)}"
    njobs = rng.randint(3, 7)
    jobs = []
    xp = experiment(wd, "gen", run_mode=RunMode.GENERATE_ONLY)
    xp.__enter__()
    try:
        for i in range(njobs):
            cls = rng.choice([zoo.TaskT, zoo.TaskO])
            t = cls(x=1000 + i)
            tags = {k: rng.choice(["bm25", "a", "b", "ab"]) for k in TAGS if rng.random() < 0.7}
            for k, v in tags.items():
                t.tag(k, v)
            t.submit()
            job = t.__xpm__.job
            jobs.append({"path": Path(job.path), "rel": str(job.relpath), "name": job.name, "tags": tags})
    finally:
        xpctx.leave_experiment(xp)
    shutil.rmtree(wd / "xp" / "gen", ignore_errors=True)
    (wd / ".__experimaestro__").touch()
    for j in jobs:
        st = rng.choice(LAYOUT_STATES)
        j["state"] = st
        p, n = j["path"], j["name"]
        if "done" in st:
            (p / f"{n}.done").touch()
        if "failed" in st:
            (p / f"{n}.failed").write_text("1")
        if "running" in st:
            sl = subprocess.Popen(["sleep", "600"], start_new_session=True)
            sleepers.append(sl)
            (p / f"{n}.pid").write_text(json.dumps({"type": "local", "pid": sl.pid}))
            ctx.count("running_jobs_present")
        (p / "payload.txt").write_text("data")
    # a job repaired after a class deprecation ('deprecated list --fix'): its directory stays under the former
    # identifier and jobs/<new type>/<new identifier> is a link to it; experiments index the new location
    indexed = set()
    if rng.random() < 0.35:
        j = rng.choice(jobs)
        newrel = f"xvdep.renamed.{j['name']}/" + "ab" * 32
        newpath = wd / "jobs" / newrel
        newpath.parent.mkdir(parents=True, exist_ok=True)
        newpath.symlink_to(j["path"])
        if rng.random() < 0.6:
            xdir = wd / "xp" / "xplinked" / "jobs" / newrel
            xdir.parent.mkdir(parents=True, exist_ok=True)
            xdir.symlink_to(newpath)
            j["linked_from"] = newrel
            j.setdefault("xps", []).append("xplinked")
            indexed.add(j["rel"])  # reachable from an experiment index through the link
            ctx.count("linked_jobs_present")
        else:
            # repaired but never resubmitted: the link itself is indexed by no experiment
            ctx.count("orphan_links_present")
    # experiments: index and backup index
    for xi in range(rng.randint(1, 3)):
        xdir = wd / "xp" / XPNAMES[xi]
        for kind in ("jobs", "jobs.bak"):
            if kind == "jobs.bak" and rng.random() < 0.5:
                continue
            for j in jobs:
                if rng.random() < 0.35:
                    link = xdir / kind / j["rel"]
                    link.parent.mkdir(parents=True, exist_ok=True)
                    if not link.is_symlink():
                        link.symlink_to(j["path"])
                        indexed.add(j["rel"])
                        j.setdefault("xps" if kind == "jobs" else "xps_bak", []).append(XPNAMES[xi])
            if rng.random() < 0.3:
                # a dangling link: indexed job whose directory is gone
                link = xdir / kind / "xvmodels.zoo.taskt" / ("f" * 64)
                link.parent.mkdir(parents=True, exist_ok=True)
                if not link.is_symlink():
                    link.symlink_to(wd / "jobs" / "xvmodels.zoo.taskt" / ("f" * 64))
            (xdir / kind).mkdir(parents=True, exist_ok=True)
    return wd, jobs, indexed


# experiment names that contain one another
XPNAMES = ["rank", "rerank", "rank-v2"]


def tree(wd):
    return sorted(str(p.relative_to(wd / "jobs")) for p in (wd / "jobs").glob("*/*") if p.is_dir() and not p.is_symlink())


def part2(ctx, rng, n):
    from click.testing import CliRunner
    from experimaestro.cli import cli
    import experimaestro.cli.jobs  # noqa: F401  registers the 'jobs' group, as experimaestro.__main__ does

    runner = CliRunner()
    for _ in range(n):
        sleepers = []
        wd = None
        try:
            wd, jobs, indexed = make_workspace(ctx, rng, sleepers)
            states = {j["state"] for j in jobs}
            before = tree(wd)
            which = rng.choice(["clean", "clean", "orphans"])
            if which == "clean":
                perform = rng.random() < 0.7
                atom = rng.choice([{"op": "=", "var": rng.choice(TAGS), "value": rng.choice(["bm25", "a", "b"])}, {"op": "in", "var": rng.choice(TAGS), "values": ["a", "b"]}, {"op": "not in", "var": rng.choice(TAGS), "values": ["a", "bm25"]}, {"op": "~", "var": rng.choice(TAGS), "pattern": "^(a|b)+$"}, None])
                args = ["jobs", "--workdir", str(wd), "clean"]
                text = None
                if atom is not None:
                    text = render_atom(rng, atom)
                    args += ["--filter", text]
                if perform:
                    args.append("--perform")
                xpname = None
                if rng.random() < 0.35:
                    xpname = rng.choice(XPNAMES + ["rank", "xplinked", "nosuchxp"])
                    args += ["--experiment", xpname]
                    ctx.count("clean_cases_with_experiment")
                res = runner.invoke(cli, args)
                ctx.count("clean_cases")
                w = {"command": args[:2] + ["<ws>"] + args[3:], "jobs": [{k: str(v) for k, v in j.items()} for j in jobs]}
                if isinstance(res.exception, SystemExit) and res.exit_code == 2:
                    ctx.inconclusive(f"click usage error: {res.output[-300:]}")
                    continue
                if res.exception is not None and not isinstance(res.exception, SystemExit):
                    ctx.violation("clean-command-raises" + (":" + atom["op"] if atom else ""), f"{args[3:]} raised {res.exception!r}", w)
                    continue
                after = tree(wd)
                want_gone = set()
                may_go = set()  # in the experiment's backup index only: either reading of "this experiment" is accepted
                for j in jobs:
                    selected = atom is None or ref_atom(atom, {"tags": j["tags"], "state": None, "name": ""})
                    finished = ("done" in j["state"] or "failed" in j["state"]) and "running" not in j["state"]
                    if perform and selected and finished:
                        if xpname is None or xpname in j.get("xps", []):
                            want_gone.add(j["rel"])
                        elif xpname in j.get("xps_bak", []):
                            may_go.add(j["rel"])
                gone = set(before) - set(after)
                if xpname is not None:
                    other = {r for r in gone - want_gone - may_go if "running" not in next(j["state"] for j in jobs if j["rel"] == r)}
                    if other:
                        ctx.violation("clean-deletes-job-of-other-experiment", f"{args[3:]}: deleted {sorted(other)}, which experiment {xpname} does not index (its jobs: {sorted(j['rel'] for j in jobs if xpname in j.get('xps', []))})", w)
                        gone = gone - other
                    gone = gone - (may_go - want_gone)
                    ctx.count("dirs_deleted_with_experiment", len(gone))
                ctx.count("dirs_deleted", len(gone))
                ctx.count("dirs_kept", len(after))
                for j in jobs:
                    if j["rel"] in gone and "running" in j["state"]:
                        ctx.violation("clean-deletes-running-job", f"{args[3:]}: job in state '{j['state']}' (live process in its pid file) was deleted", w)
                extra = gone - want_gone
                missing = want_gone - gone
                if any(True for r in extra if "running" not in next(j["state"] for j in jobs if j["rel"] == r)):
                    ctx.violation("clean-deletes-unselected" + (":" + atom["op"] if atom else ""), f"{args[3:]}: deleted {sorted(extra)}, reference selection {sorted(want_gone)}", w)
                if missing:
                    ctx.violation("clean-keeps-selected" + (":" + atom["op"] if atom else ""), f"{args[3:]}: kept {sorted(missing)} although finished and selected", w)
                ctx.case({"layout": [(j["state"], sorted(j["tags"].items())) for j in jobs], "cmd": args[3:]}, nontrivial=len(states) >= 3, sample={"states": [j["state"] for j in jobs], "command": args[3:], "deleted": len(gone)}, max_samples=2)
            else:
                clean = rng.random() < 0.7
                args = ["orphans", str(wd)] + (["--clean"] if clean else [])
                res = runner.invoke(cli, args)
                ctx.count("orphan_cases")
                w = {"command": ["orphans", "<ws>"] + args[2:], "jobs": [{k: str(v) for k, v in j.items()} for j in jobs], "indexed": sorted(indexed)}
                if res.exception is not None and not isinstance(res.exception, SystemExit):
                    ctx.violation("orphans-command-raises" + (":link-in-jobs-tree" if "symbolic link" in repr(res.exception) else ""), f"raised {res.exception!r}", w)
                    continue
                after = tree(wd)
                gone = set(before) - set(after)
                want_gone = {j["rel"] for j in jobs if j["rel"] not in indexed} if clean else set()
                ctx.count("dirs_deleted", len(gone))
                ctx.count("dirs_kept", len(after))
                linked_lost = [j["rel"] for j in jobs if j.get("linked_from") and j["rel"] in gone]
                if linked_lost:
                    ctx.violation("orphans-deletes-job-reached-through-link", f"deleted {linked_lost}: the directory is what an indexed job (jobs/{[j['linked_from'] for j in jobs if j.get('linked_from')][0][:40]}..., a link made by the deprecation repair) resolves to", w)
                    gone = gone - set(linked_lost)
                if gone - want_gone:
                    ctx.violation("orphans-deletes-indexed-job", f"deleted {sorted(gone - want_gone)} although referenced by an experiment index or backup index", w)
                if want_gone - gone:
                    ctx.violation("orphans-keeps-unreferenced", f"kept {sorted(want_gone - gone)} although no index references them", w)
                listed = {l.strip() for l in res.output.splitlines()}
                for j in jobs:
                    if j.get("linked_from") and j["rel"] in listed:
                        if not linked_lost:
                            ctx.violation("orphans-deletes-job-reached-through-link", f"{j['rel']} is listed as orphan although the indexed job jobs/{j['linked_from'][:40]}... is a link to it", w)
                    elif j["rel"] in indexed and j["rel"] in listed:
                        ctx.violation("orphans-lists-indexed-job", f"{j['rel']} is indexed but reported as orphan", w)
                ctx.case({"layout": [(j["state"], j["rel"] in indexed) for j in jobs], "cmd": args[2:]}, nontrivial=len(states) >= 3, sample={"indexed": len(indexed), "jobs": len(jobs), "deleted": len(gone)}, max_samples=2)
        finally:
            for sl in sleepers:
                try:
                    os.killpg(sl.pid, signal.SIGKILL)
                except Exception:
                    pass
                try:
                    sl.wait(5)
                except Exception:
                    pass
            if wd is not None:
                shutil.rmtree(wd, ignore_errors=True)


def worker(ctx):
    xpctx.quiet()
    n1, n2 = (max(1, x // ctx.nshards) for x in N[ctx.tier])
    with xpctx.stderr_to_devnull():
        part1(ctx, ctx.rng, n1)
        part2(ctx, ctx.rng, n2 * 1)


def replay(ctx, w):
    xpctx.quiet()
    if "expression" in w:
        from experimaestro.cli.filter import createFilter

        f = createFilter(w["expression"])
        if "job" in w:
            got = bool(f(StubInfo(w["job"])))
            want = ref_chain(w["atoms"], w["ops"], w["job"])
            if got not in want:
                ctx.violation("filter-means-otherwise:replay", f"{w['expression']!r}: {got} vs {sorted(want)}", w)
    else:
        print("replay of a workspace case: re-run the quick tier with the recorded seed")
