"""C14 – submitted configurations are frozen together with their identity.

After submit (dry-run / generate-only; DAGs) or seal (also cyclic graphs) the harness plays a random history of
attempts {assign a parameter, set the meta flag, add pre-tasks (add_pretasks / add_pretasks_from)} on the task and on
every configuration it computes as reachable (from its own shadow model: parameters, lists, dicts, task outputs and
their tasks, pre-tasks, init tasks, cycles), interleaved with identifier requests; every attempt must raise and every
identifier / job directory must stay what it was at submission.  copyconfig(node, name=value) - the documented way to
derive a modified configuration - may build its copy or refuse; what every reachable node holds (values by object
identity, meta flag, pre-task list) is compared with a snapshot taken at submission after every step."""
import random
from pathlib import Path

from xvgen import build, idlib, recipes, xpctx
from xvgen.schema import SCHEMA, F

PROPERTY = "C14"
LEVEL = "exploration"
RULE = (
    "seeded random graphs (shared, cyclic, containers, task outputs, pre/init tasks) sealed by dry-run submit, generate-only "
    "submit or seal(); ~25 random attempts/identifier requests per graph on random reachable nodes; non-trivial = >= 3 reachable "
    "nodes and an attempt on a node other than the root; distinct = distinct (recipe, history seed)"
)
ASSUMPTIONS = [
    "only the three operations named in the statement are required to raise (in-place mutation of a list value is not 'assigning a parameter'); copyconfig with overrides is attempted too but only judged through the value snapshot of the sealed graph",
    "any exception counts as a rejection (AttributeError, SealedError, AssertionError)",
    "reachability is computed by the harness from the recipe, not by the library's own walk",
]
SHARDS = {"quick": 16, "thorough": 16}
MINIMUMS = {
    "quick": {"distinct_nontrivial": 800, "attempts": 20000, "attempt:assign": 5000, "attempt:meta": 3000, "attempt:pretask": 3000, "attempt:pretask_from": 1000, "attempts_on_inner": 10000, "ids_rechecked": 100000, "mode:seal": 200, "mode:dry-run": 200, "mode:generate": 50, "copies_with_overrides": 3000, "values_rechecked": 100000},
    "thorough": {"distinct_nontrivial": 25000, "attempts": 600000, "attempts_on_inner": 300000, "ids_rechecked": 3000000, "mode:seal": 6000, "mode:dry-run": 6000, "mode:generate": 1500},
}
N = {"quick": 1600, "thorough": 48000}
TIMEOUT = {"quick": 2400, "thorough": 14400}


def a_value(rng, p, zoo, b, sh, nid):
    """A well-typed candidate for the parameter (assignable if the node were not sealed)."""
    t = p.base
    if t == "int":
        return rng.randint(-5, 5)
    if t == "float":
        return rng.choice([0.5, 2.0])
    if t == "str":
        return rng.choice(["changed", ""])
    if t == "bool":
        return rng.random() < 0.5
    if t == "path":
        return Path("/changed")
    if isinstance(t, tuple):
        if t[0] == "enum":
            return list(getattr(zoo, t[1]))[0]
        if t[0] == "list":
            return []
        if t[0] == "dict":
            return {}
        if t[0] == "cfg":
            if p.optional:
                return None
            cur = b.real[nid].__xpm__.values.get(next(k for k, q in SCHEMA[sh.nodes[nid].cls]["params"].items() if q is p))
            return cur
    return None


def values_fp(b, reach):
    """What every reachable configuration holds (configurations by object identity): must not move after sealing."""
    from experimaestro import Config

    def fp(v):
        if isinstance(v, Config):
            return ("cfg", id(v))
        if isinstance(v, (list, tuple)):
            return ("list", tuple(fp(x) for x in v))
        if isinstance(v, dict):
            return ("dict", tuple(sorted((str(k), fp(x)) for k, x in v.items())))
        return (type(v).__name__, repr(v))

    return {n: tuple(sorted((k, fp(v)) for k, v in b.real[n].__xpm__.values.items())) + (("$meta", repr(b.real[n].__xpm__.meta)), ("$pre", tuple(id(x) for x in b.real[n].__xpm__.pre_tasks))) for n in reach}


def explore(ctx, recipe, rng):
    from xvmodels import zoo
    from experimaestro import setmeta
    from experimaestro.scheduler.workspace import RunMode
    from experimaestro.xpmutils import DirectoryContext

    root = recipe["root"]
    is_task = recipe["kind"] == "task"
    mode = "seal"
    if is_task:
        mode = rng.choice(["dry-run", "dry-run", "generate", "seal"])
    try:
        b = build.Builder().run(recipe)
    except RecursionError:
        return
    sh, ref = idlib.shadow_of(recipe)
    builder = build.Builder()
    cyclic = sh.has_cycle_below(root)
    if cyclic and mode != "seal":
        mode = "seal"
    try:
        if mode == "seal":
            b.real[root].__xpm__.seal(DirectoryContext(Path("/xvseal")))
            sh.apply(["seal", root])
        elif mode == "dry-run":
            builder.step(["submit", root, []], b)
            sh.apply(["submit", root, []])
        else:
            from experimaestro import experiment

            wd = ctx.scratch / f"gen{rng.randrange(10**9)}"
            xp = experiment(wd, "gx", run_mode=RunMode.GENERATE_ONLY)
            xp.__enter__()
            try:
                # everything the task embeds was submitted (dry-run) before; the root is generated for real
                builder.step(["submit", root, []], b)
            finally:
                xpctx.leave_experiment(xp)
                import shutil

                shutil.rmtree(wd, ignore_errors=True)
            sh.apply(["submit", root, []])
    except RecursionError:
        return
    ctx.count("mode:" + mode)
    reach = [n for n in sh.reachable(root, through_task=True) if n in b.real]
    at_submit = build.all_ids(b, reach)
    values_at_submit = values_fp(b, reach)
    relpath = str(b.real[root].__xpm__.job.relpath) if mode != "seal" else None
    inner = False
    w = {"recipe": recipe, "mode": mode}
    for stepno in range(25):
        nid = rng.choice(reach)
        obj = b.real[nid]
        cls = sh.nodes[nid].cls
        kind = rng.choice(["assign", "assign", "meta", "pretask", "pretask_from", "id", "copy"])
        if kind == "id":
            obj.__xpm__.identifier
            obj.__xpm__.raw_identifier
        elif kind == "copy":
            # the documented way to derive a modified configuration from a sealed one: the copy may be built or refused,
            # the sealed original must keep what it holds
            from experimaestro import copyconfig

            ctx.count("copies_with_overrides")
            cands = [(n, p) for n, p in SCHEMA[cls]["params"].items() if not p.generator and not p.constant]
            name, p = rng.choice(cands)
            try:
                copyconfig(obj, **{name: a_value(rng, p, zoo, b, sh, nid)})
            except Exception:
                pass
        else:
            ctx.count("attempts")
            ctx.count("attempt:" + kind)
            if nid != root:
                inner = True
                ctx.count("attempts_on_inner")
            try:
                if kind == "assign":
                    cands = [(n, p) for n, p in SCHEMA[cls]["params"].items() if not p.generator and not p.constant]
                    name, p = rng.choice(cands)
                    before = obj.__xpm__.values.get(name)
                    setattr(obj, name, a_value(rng, p, zoo, b, sh, nid))
                    what = f"assignment of {name}"
                elif kind == "meta":
                    what = "setmeta"
                    if rng.random() < 0.5:
                        setmeta(obj, rng.choice([True, False, None]))
                    else:
                        obj.__xpm__.set_meta(rng.choice([True, False, None]))
                elif kind == "pretask":
                    what = "add_pretasks"
                    obj.add_pretasks(zoo.Pre(k=stepno))
                else:
                    what = "add_pretasks_from"
                    other = zoo.Leaf(i=1)
                    if rng.random() < 0.7:
                        other.add_pretasks(zoo.Pre(k=stepno))
                    obj.add_pretasks_from(other)
                ctx.violation(
                    "mutation-accepted-after-" + ("seal" if mode == "seal" else "submit") + ":" + kind,
                    f"{what} on node {nid} ({cls}, {'root' if nid == root else 'reachable from the root'}) was accepted after {mode}",
                    dict(w, node=nid, attempt=kind),
                )
            except Exception:
                pass
        vnow = values_fp(b, reach)
        ctx.count("values_rechecked", len(reach))
        if vnow != values_at_submit:
            bad = next(n for n in reach if vnow[n] != values_at_submit[n])
            diff = sorted(set(k for k, _ in set(vnow[bad]) ^ set(values_at_submit[bad])))
            ctx.violation("values-changed-after-" + ("seal" if mode == "seal" else "submit") + ":" + kind, f"node {bad} ({sh.nodes[bad].cls}): {diff} differ from what the node held at {mode}, after step {stepno} ({kind} on {nid})", dict(w, node=bad, attempt=kind))
            break
        now = build.all_ids(b, reach)
        ctx.count("ids_rechecked", len(reach) * 2)
        if now != at_submit:
            bad = next(n for n in reach if now[n] != at_submit[n])
            ctx.violation("identifier-changed-after-" + ("seal" if mode == "seal" else "submit"), f"node {bad}: {at_submit[bad]} at {mode}, {now[bad]} after step {stepno} ({kind} on {nid})", dict(w, node=bad))
            break
        if relpath is not None and str(b.real[root].__xpm__.job.relpath) != relpath:
            ctx.violation("job-directory-changed-after-submit", f"{relpath} -> {b.real[root].__xpm__.job.relpath}", dict(w, node=root))
            break
    ctx.case({"r": recipe["steps"], "m": mode, "s": rng.random()}, nontrivial=len(reach) >= 3 and inner, sample={"mode": mode, "reachable": reach[:10], "steps": recipe["steps"][:6]}, max_samples=2)


def worker(ctx):
    xpctx.quiet()
    n = max(1, N[ctx.tier] // ctx.nshards)
    cyclic = recipes.Profile(p_cycle=0.95, root_classes=["Rec", "Rec", "Node", "Holder"], p_share=0.5)
    tasks = recipes.Profile(root_classes=["TaskT", "TaskO"], p_pre=0.4, p_init=0.5)
    with xpctx.stderr_to_devnull(), xpctx.dry_experiment(ctx.scratch / "ws"):
        for i in range(n):
            rec = recipes.generate(ctx.rng, [None, cyclic, tasks, tasks][i % 4])
            explore(ctx, rec, ctx.rng)


def replay(ctx, w):
    xpctx.quiet()
    with xpctx.stderr_to_devnull(), xpctx.dry_experiment(ctx.scratch / "ws"):
        for s in range(20):
            explore(ctx, w["recipe"], random.Random(s))
