"""C13 – runtime objects mirror the configuration graph and are initialised once.

Routes: config.instance() (also cyclic graphs and two calls sharing one ObjectStore), ConfigInformation.fromParameters(
as_instance=True) and a real job process started from the generated script.  Monitors: the isomorphism checker of C12 with
'configuration node -> runtime object' (one object per node, wired like the graph), and the call log written by the
instrumented model classes (__post_init__ once per object with its parameters already set; each pre-task executed exactly
once; in the parameter-file routes each init task once, after the pre-tasks and before the body)."""
import json
import os
import random
import shutil
import subprocess
from pathlib import Path

from xvcore import PYTHON, REPO, VERIF
from xvgen import build, idlib, recipes, xpctx
from xvmodels import calllog
from xvref import iso

PROPERTY = "C13"
LEVEL = "exploration"
RULE = (
    "seeded random graphs with sharing, cycles, pre-tasks attached at several nodes and shared between nodes, pre-tasks of embedded "
    "tasks, init tasks; three instantiation routes; non-trivial = >= 3 nodes and (a shared node, a cycle, or a pre/init task); distinct = "
    "distinct (recipe, route)"
)
ASSUMPTIONS = [
    "cyclic graphs are instantiated through instance() only (they cannot be submitted)",
    "expected pre-tasks of a route = pre-tasks attached to the configurations that route turns into objects",
    "with a shared ObjectStore the pre-tasks are judged per instance() call (the statement speaks of turning one graph into objects): a pre-task attached in both graphs may run in both calls; objects are still created and initialised once overall",
]
SHARDS = {"quick": 16, "thorough": 16}
MINIMUMS = {
    "quick": {"distinct_nontrivial": 1500, "objects_checked": 40000, "post_init_checked": 40000, "pre_tasks_checked": 3000, "route:instance": 1000, "route:fromParameters": 1000, "route:from_state_dict-instance": 1000, "route:shared-store": 300, "route:job-process": 16, "cyclic_instances": 100, "init_tasks_checked": 100, "loader_pattern_cases": 400, "loader_shape:pre-task": 150},
    "thorough": {"distinct_nontrivial": 45000, "objects_checked": 1200000, "post_init_checked": 1200000, "pre_tasks_checked": 90000, "route:instance": 30000, "route:fromParameters": 30000, "route:shared-store": 9000, "route:job-process": 160, "cyclic_instances": 3000, "init_tasks_checked": 3000, "loader_pattern_cases": 6000, "loader_shape:pre-task": 2000},
}
N = {"quick": 3200, "thorough": 64000}
NREAL = {"quick": 2, "thorough": 10}
TIMEOUT = {"quick": 2400, "thorough": 14400}


def check_log(ctx, w, route, log, images, expected_pre, init_expected=None, body_expected=False):
    """images: {id(runtime object): (path, config)} of the bijection; log: the call log of this instantiation."""
    post = {}
    pre = {}
    init = []
    order = []
    for ev, oid, cls, extra in log:
        order.append(ev)
        if ev == "post_init":
            post.setdefault(oid, []).append(extra)
        elif ev == "pre_execute":
            pre[oid] = pre.get(oid, 0) + 1
        elif ev == "init_execute":
            init.append(oid)
    ok = True
    for oid, (path, cfg) in images.items():
        ctx.count("post_init_checked")
        calls = post.get(oid, [])
        if len(calls) != 1:
            ctx.violation("post-init-count", f"{route}: __post_init__ ran {len(calls)} times for the object of {path} ({type(cfg).__xpmtype__.basetype.__qualname__})", w)
            ok = False
            continue
        have = set(calls[0])
        want = {k for k in cfg.__xpm__.values}
        if not want <= have:
            ctx.violation("post-init-before-parameters", f"{route}: __post_init__ of {path} ran with {sorted(want - have)} not yet set", w)
            ok = False
    unknown = [oid for oid in post if oid not in images]
    if unknown and route != "job-process":
        ctx.violation("object-outside-the-graph", f"{route}: {len(unknown)} object(s) were initialised that are the image of no configuration reached from the root", w)
        ok = False
    for oid, n in pre.items():
        if n != 1:
            ctx.violation("pre-task-executed-twice", f"{route}: a pre-task was executed {n} times", w)
            ok = False
    for oid in expected_pre:
        ctx.count("pre_tasks_checked")
        if pre.get(oid, 0) != 1:
            ctx.violation("pre-task-count", f"{route}: a pre-task attached in the graph was executed {pre.get(oid, 0)} times", w)
            ok = False
    if init_expected is not None:
        for oid in init_expected:
            ctx.count("init_tasks_checked")
        if init != list(init_expected):
            ctx.violation("init-task-count-or-order", f"{route}: init tasks executed {len(init)} time(s) in order {init}, expected each of {list(init_expected)} once in this order", w)
            ok = False
        evs = [e for e in order if e in ("pre_execute", "init_execute", "execute")]
        rank = {"pre_execute": 0, "init_execute": 1, "execute": 2}
        if any(rank[a] > rank[b] for a, b in zip(evs, evs[1:])):
            ctx.violation("pre-init-body-order", f"{route}: order of pre-tasks / init tasks / body was {evs}", w)
            ok = False
    return ok


def images_of(r):
    return {id(b): (path, a) for path, a, b in r.pairs}


def expected_pre_objects(r):
    """Runtime images of the pre-tasks attached to any configuration of the bijection."""
    res = []
    for path, a, b in r.pairs:
        for p in a.__xpm__.pre_tasks:
            img = r.fwd.get(id(p))
            if img is not None and id(img) not in res:
                res.append(id(img))
    return res


class WalkIso(iso.Iso):
    """Instance isomorphism that also follows pre-task and init-task lists (they become runtime objects too)."""

    def node(self, path, a, b):
        known = id(a) in self.fwd
        super().node(path, a, b)
        if not known and self.fwd.get(id(a)) is b:
            for kind, lst in (("pre", a.__xpm__.pre_tasks), ("init", a.__xpm__.init_tasks)):
                for i, p in enumerate(lst):
                    img = self.store_lookup(p)
                    if img is not None:
                        self.node(f"{path}.{kind}[{i}]", p, img)

    def store_lookup(self, cfg):
        return self.lookup(cfg) if self.lookup else None


def route_instance(ctx, recipe, b, root, rng):
    from experimaestro import ObjectStore
    from experimaestro.xpmutils import DirectoryContext

    w = {"recipe": recipe, "route": "instance"}
    store = ObjectStore()
    calllog.LOG = []
    try:
        obj = b.real[root].instance(DirectoryContext(Path("/xvinst")), objects=store)
    except RecursionError:
        calllog.LOG = None
        return
    log, calllog.LOG = calllog.LOG, None
    ctx.count("route:instance")
    r = WalkIso("instance")
    r.lookup = lambda cfg: store.retrieve(id(cfg))
    r.value("root", b.real[root], obj)
    ctx.count("objects_checked", len(r.pairs))
    if r.diffs:
        ctx.violation("runtime-graph-differs:instance", f"{r.diffs[:3]}", w)
        return
    check_log(ctx, w, "instance", log, images_of(r), expected_pre_objects(r))
    return store, r


def route_shared_store(ctx, recipe, b, root, rng):
    """Two instance() calls with one ObjectStore on overlapping graphs."""
    from experimaestro import ObjectStore
    from experimaestro.xpmutils import DirectoryContext
    from xvmodels import zoo

    inner = [n for n, o in b.real.items() if n != root and type(o).__xpmtype__.basetype.__name__ in ("Leaf", "LeafB") and not o.__xpm__._sealed]
    if not inner:
        return
    shared = b.real[rng.choice(inner)]
    other = zoo.Node(child=shared, items=[shared])
    w = {"recipe": recipe, "route": "shared-store"}
    store = ObjectStore()
    calllog.LOG = []
    try:
        o1 = b.real[root].instance(DirectoryContext(Path("/xvinst")), objects=store)
        split = len(calllog.LOG)
        o2 = other.instance(DirectoryContext(Path("/xvinst")), objects=store)
    except RecursionError:
        calllog.LOG = None
        return
    log, calllog.LOG = calllog.LOG, None
    ctx.count("route:shared-store")
    r = WalkIso("instance")
    r.lookup = lambda cfg: store.retrieve(id(cfg))
    r.value("root", [b.real[root], other], [o1, o2])
    ctx.count("objects_checked", len(r.pairs))
    if r.diffs:
        ctx.violation("runtime-graph-differs:shared-store", f"{r.diffs[:3]}", w)
        return
    # objects are created and initialised once over both calls; pre-tasks are judged per call (each call turns
    # one graph into objects and runs the pre-tasks of that graph once; a pre-task shared by both graphs may run in both)
    imgs = images_of(r)
    post = {}
    for ev, oid, cls, extra in log:
        if ev == "post_init":
            post[oid] = post.get(oid, 0) + 1
    for oid, (path, cfg) in imgs.items():
        ctx.count("post_init_checked")
        if post.get(oid, 0) != 1:
            ctx.violation("post-init-count", f"shared-store: __post_init__ ran {post.get(oid, 0)} times for the object of {path}", w)
            break
    expected = set(expected_pre_objects(r))
    for part, name in ((log[:split], "first call"), (log[split:], "second call")):
        per = {}
        for ev, oid, cls, extra in part:
            if ev == "pre_execute":
                per[oid] = per.get(oid, 0) + 1
        for oid, n in per.items():
            ctx.count("pre_tasks_checked")
            if n != 1:
                ctx.violation("pre-task-executed-twice", f"shared-store, {name}: a pre-task was executed {n} times within one instance() call", w)
    ran = {oid for ev, oid, cls, extra in log if ev == "pre_execute"}
    if expected - ran:
        ctx.violation("pre-task-count", f"shared-store: {len(expected - ran)} pre-task(s) attached in the graphs were never executed", w)


def route_from_parameters(ctx, recipe, b, root, rng):
    from experimaestro.core.objects import ConfigInformation

    w = {"recipe": recipe, "route": "fromParameters"}
    orig = b.real[root]
    defs = json.loads(orig.__json__())
    calllog.LOG = []
    try:
        obj = ConfigInformation.fromParameters(defs, as_instance=True)
    finally:
        log, calllog.LOG = calllog.LOG, None
    ctx.count("route:fromParameters")
    r = iso.compare_instances(orig, obj)
    ctx.count("objects_checked", len(r.pairs))
    if r.diffs:
        ctx.violation("runtime-graph-differs:fromParameters", f"{r.diffs[:3]}", w)
        return
    # every definition of the file becomes an object: those outside the root's parameter graph (producing tasks,
    # pre-tasks) are initialised too; the bijection covers the parameter graph
    imgs = images_of(r)
    post = {}
    for ev, oid, cls, extra in log:
        if ev == "post_init":
            post[oid] = post.get(oid, 0) + 1
    if len(post) != len(defs) or any(n != 1 for n in post.values()):
        ctx.violation("post-init-count", f"fromParameters: {len(defs)} definitions, __post_init__ calls per object {sorted(post.values())}", w)
    pre_ids = []
    for d in defs:
        for p in d.get("pre-tasks", []):
            if p not in pre_ids:
                pre_ids.append(p)
    npre = sum(1 for ev, *_ in log if ev == "pre_execute")
    ctx.count("pre_tasks_checked", len(pre_ids))
    per = {}
    for ev, oid, cls, extra in log:
        if ev == "pre_execute":
            per[oid] = per.get(oid, 0) + 1
    if npre != len(pre_ids) or any(n != 1 for n in per.values()):
        ctx.violation("pre-task-count", f"fromParameters: {len(pre_ids)} distinct pre-tasks in the file, executions per object {sorted(per.values())}", w)
    init_ids = defs[-1].get("init-tasks", [])
    ninit = [oid for ev, oid, *_ in log if ev == "init_execute"]
    ctx.count("init_tasks_checked", len(init_ids))
    if len(ninit) != len(init_ids) or len(set(ninit)) != len(ninit) and len(set(init_ids)) == len(init_ids):
        ctx.violation("init-task-count-or-order", f"fromParameters: {len(init_ids)} init tasks, {len(ninit)} executions", w)
    evs = [e for e, *_ in log if e in ("pre_execute", "init_execute")]
    if any(a == "init_execute" and c == "pre_execute" for a, c in zip(evs, evs[1:])):
        ctx.violation("pre-init-body-order", f"fromParameters: order {evs}", w)
    for oid, (path, cfg) in imgs.items():
        ctx.count("post_init_checked")
    # parameters set before __post_init__
    by = {oid: extra for ev, oid, cls, extra in log if ev == "post_init"}
    for oid, (path, cfg) in imgs.items():
        want = set(cfg.__xpm__.values)
        if not want <= set(by.get(oid, [])):
            ctx.violation("post-init-before-parameters", f"fromParameters: __post_init__ of {path} ran with {sorted(want - set(by.get(oid, [])))} not yet set", w)
            break


def route_state_dict_instance(ctx, recipe, b, root, rng):
    """The serialization entry points that return objects: state_dict -> from_state_dict(as_instance=True)."""
    from experimaestro import SerializationContext, from_state_dict, state_dict

    w = {"recipe": recipe, "route": "from_state_dict(as_instance=True)"}
    orig = b.real[root]
    sd = json.loads(json.dumps(state_dict(SerializationContext(), orig)))
    calllog.LOG = []
    try:
        obj = from_state_dict(sd, as_instance=True)
    finally:
        log, calllog.LOG = calllog.LOG, None
    ctx.count("route:from_state_dict-instance")
    r = iso.compare_instances(orig, obj)
    ctx.count("objects_checked", len(r.pairs))
    if r.diffs:
        ctx.violation("runtime-graph-differs:from_state_dict", f"{r.diffs[:3]}", w)
        return
    imgs = images_of(r)
    post = {}
    for ev, oid, cls, extra in log:
        if ev == "post_init":
            post[oid] = post.get(oid, 0) + 1
    bad = [path for oid, (path, cfg) in imgs.items() if post.get(oid, 0) != 1]
    for oid in imgs:
        ctx.count("post_init_checked")
    if bad:
        ctx.violation("post-init-count:from_state_dict", f"from_state_dict(as_instance=True): __post_init__ calls differ from one for {len(bad)} of {len(imgs)} objects (e.g. {bad[:3]}: {[post.get(o, 0) for o in list(imgs)[:3]]})", w)


def route_job_process(ctx, recipe, rng):
    from experimaestro import experiment
    from experimaestro.scheduler.workspace import RunMode

    root = recipe["root"]
    r2 = {"steps": list(recipe["steps"]), "root": root, "kind": "task"}
    r2["steps"] += [["new", "xi1", "Init", [["k", 11]]], ["new", "xi2", "Init", [["k", 12]]], ["new", "xp1", "Pre", [["k", 13]]], ["pre", root, ["xp1"]]]
    r2["steps"].append(["submit", root, ["xi1", "xi2"]])
    wd = ctx.scratch / f"gen{rng.randrange(10**9)}"
    xp = experiment(wd, "gx", run_mode=RunMode.GENERATE_ONLY)
    xp.__enter__()
    try:
        xp.workspace.launcher.setenv("PYTHONPATH", f"{REPO}/src:{VERIF}/lib")
        xp.workspace.launcher.setenv("XV_ECHO", "1")
        xp.workspace.launcher.setenv("XV_CALLLOG", "1")
        b2 = build.Builder().run(r2)
        task = b2.real[root]
        job = task.__xpm__.job
        script = Path(job.path) / f"{job.name}.py"
        env = {"PATH": os.environ.get("PATH", ""), "HOME": os.environ.get("HOME", "/tmp"), "PYTHONDONTWRITEBYTECODE": "1", "PYTHONPATH": f"{REPO}/src"}
        pr = subprocess.run([PYTHON, str(script)], env=env, capture_output=True, text=True, timeout=120, cwd="/")
        ctx.count("route:job-process")
        w = {"recipe": r2, "route": "job-process"}
        echo = Path(job.path) / "echo.json"
        if pr.returncode != 0 or not echo.is_file():
            ctx.violation("job-process-fails-to-load", f"exit {pr.returncode}: {pr.stderr[-500:]}", w)
            return
        data = json.loads(echo.read_text())
        diffs = iso.compare_echo(task, data["params"])
        if diffs:
            ctx.violation("runtime-graph-differs:job-process", f"{diffs[:3]}", w)
            return
        defs = json.loads((Path(job.path) / "params.json").read_text())["objects"]
        log = [tuple(c) for c in data["calls"]]
        post = {}
        for ev, oid, cls, extra in log:
            if ev == "post_init":
                post[oid] = post.get(oid, 0) + 1
        ctx.count("objects_checked", len(post))
        ctx.count("post_init_checked", len(post))
        if len(post) != len(defs) or any(n != 1 for n in post.values()):
            ctx.violation("post-init-count", f"job process: {len(defs)} definitions, __post_init__ calls per object {sorted(post.values())}", w)
        pre_ids = []
        for d in defs:
            for p in d.get("pre-tasks", []):
                if p not in pre_ids:
                    pre_ids.append(p)
        per = {}
        for ev, oid, cls, extra in log:
            if ev == "pre_execute":
                per[oid] = per.get(oid, 0) + 1
        ctx.count("pre_tasks_checked", len(pre_ids))
        if len(per) != len(pre_ids) or any(n != 1 for n in per.values()):
            ctx.violation("pre-task-count", f"job process: {len(pre_ids)} distinct pre-tasks, executions per object {sorted(per.values())}", w)
        inits = [oid for ev, oid, *_ in log if ev == "init_execute"]
        ctx.count("init_tasks_checked", 2)
        if len(inits) != 2 or len(set(inits)) != 2:
            ctx.violation("init-task-count-or-order", f"job process: 2 init tasks, executions {inits}", w)
        evs = [e for e, *_ in log if e in ("pre_execute", "init_execute", "execute")]
        rank = {"pre_execute": 0, "init_execute": 1, "execute": 2}
        if any(rank[a] > rank[c] for a, c in zip(evs, evs[1:])) or evs.count("execute") != 1:
            ctx.violation("pre-init-body-order", f"job process: order {evs}", w)
    except RecursionError:
        pass
    except subprocess.TimeoutExpired:
        ctx.inconclusive("real job process timed out")
    finally:
        xp.__exit__(RuntimeError, None, None)
        shutil.rmtree(wd, ignore_errors=True)


def explore(ctx, recipe, rng, real_budget):
    root = recipe["root"]
    sh, _ = idlib.shadow_of(recipe)
    try:
        b = build.Builder().run(recipe)
    except RecursionError:
        return real_budget
    cyc = sh.has_cycle_below(root)
    try:
        b1 = build.Builder().run(recipe)
        route_instance(ctx, recipe, b1, root, rng)
        if cyc:
            ctx.count("cyclic_instances")
        b2 = build.Builder().run(recipe)
        route_shared_store(ctx, recipe, b2, root, rng)
        if not cyc:
            route_from_parameters(ctx, recipe, b, root, rng)
            b5 = build.Builder().run(recipe)
            route_state_dict_instance(ctx, recipe, b5, root, rng)
            if recipe["kind"] == "task":
                bs = build.Builder().run(recipe)
                inits = []
                rs = {"steps": list(recipe["steps"]), "root": root, "kind": "task"}
                if rng.random() < 0.6:
                    rs["steps"] += [["new", "xi1", "Init", [["k", 11]]], ["new", "xi2", "Init", [["k", 12]]]]
                    inits = ["xi1", "xi2"]
                rs["steps"].append(["submit", root, inits])
                bs = build.Builder().run(rs)
                route_from_parameters(ctx, rs, bs, root, rng)
    except RecursionError:
        pass
    finally:
        calllog.LOG = None
    if recipe["kind"] == "task" and real_budget > 0 and not cyc:
        real_budget -= 1
        route_job_process(ctx, recipe, rng)
    feats = idlib.features(recipe, sh)
    nt = len(sh.nodes) >= 3 and (idlib.nontrivial(recipe, sh) or "pre" in feats or "init" in feats)
    ctx.case(recipe["steps"], nontrivial=nt, sample={"root": root, "steps": recipe["steps"][:8]}, max_samples=2)
    return real_budget


def loader_pattern(ctx, rng, n):
    """The pattern of the library's own serializers: a pre-task that refers back to the configuration it is attached to
    (LoadModel(value=model) attached to model).  Objects are requested from either end - the configuration, one of its
    pre-tasks, a holder - so that the walk meets the pre-task before or after its owner."""
    from xvmodels import zoo

    for _ in range(n):
        a = zoo.Artifact(v=rng.randint(0, 99))
        pres = [zoo.Pre(k=rng.randint(0, 99), art=a) for _ in range(rng.choice([1, 1, 2, 3]))]
        a.add_pretasks(*pres)
        shape = rng.choice(["owner", "pre-task", "pre-task", "holder"])
        holder = zoo.Holder(a=a) if shape == "holder" else None
        root = {"owner": a, "pre-task": pres[rng.randrange(len(pres))], "holder": holder}[shape]
        w = {"loader-pattern": shape, "pre_tasks": len(pres)}
        calllog.LOG = []
        try:
            obj = root.instance()
        except RecursionError:
            ctx.count("loader_recursion")
            calllog.LOG = None
            continue
        finally:
            log, calllog.LOG = calllog.LOG, None
        ctx.count("loader_pattern_cases")
        ctx.count("loader_shape:" + shape)
        inits = [e for e in log if e[0] == "post_init"]
        execs = [e for e in log if e[0] == "pre_execute"]
        nconf = 1 + len(pres) + (1 if holder is not None else 0)
        if len(inits) != nconf:
            ctx.violation("object-built-twice:loader-pattern", f"{shape} first: {len(inits)} objects were initialised for {nconf} configurations ({[e[2] for e in inits]})", w)
            continue
        if len({e[1] for e in inits}) != len(inits):
            ctx.violation("post-init-run-twice:loader-pattern", f"{shape} first: __post_init__ ran twice on one object", w)
        if len(execs) != len(pres) or len({e[1] for e in execs}) != len(pres):
            ctx.violation("pre-task-not-once:loader-pattern", f"{shape} first: {len(pres)} pre-tasks, {len(execs)} executions on {len({e[1] for e in execs})} objects", w)
        elif not {e[1] for e in execs} <= {e[1] for e in inits}:
            ctx.violation("pre-task-executed-on-uninitialised-object:loader-pattern", f"{shape} first: an executed pre-task is not one of the objects that were initialised", w)
        elif any("k" not in (e[3] or []) or "art" not in (e[3] or []) for e in execs):
            ctx.violation("pre-task-executed-without-parameters:loader-pattern", f"{shape} first: attributes present at execution: {[e[3] for e in execs]}", w)
        owner = obj if shape == "owner" else (obj.art if shape == "pre-task" else obj.a)
        if shape == "pre-task" and id(obj) not in {e[1] for e in execs}:
            ctx.violation("pre-task-object-differs:loader-pattern", "the object returned for the pre-task is not the object that was executed as pre-task of its owner", w)
        ctx.case({"loader": shape, "n": len(pres), "v": a.v, "ks": [p.k for p in pres]}, nontrivial=True, sample={"shape": shape, "pre_tasks": len(pres), "objects": len(inits)}, max_samples=2)


def worker(ctx):
    xpctx.quiet()
    with xpctx.stderr_to_devnull():
        loader_pattern(ctx, ctx.rng, 40 if ctx.tier == "quick" else 600)
    n = max(1, N[ctx.tier] // ctx.nshards)
    real_budget = NREAL[ctx.tier]
    profs = [
        None,
        recipes.Profile(p_pre=0.5, p_init=0.6, p_share=0.5, root_classes=["TaskT", "TaskO", "Node", "Holder", "Rec"]),
        recipes.Profile(p_cycle=0.9, root_classes=["Rec", "Node"], p_share=0.5, p_pre=0.4),
        recipes.Profile(root_classes=["TaskT", "TaskO"], p_optional=0.6, p_task_param=0.3, p_pre=0.4),
    ]
    with xpctx.stderr_to_devnull(), xpctx.dry_experiment(ctx.scratch / "ws"):
        for i in range(n):
            rec = recipes.generate(ctx.rng, profs[i % 4])
            real_budget = explore(ctx, rec, ctx.rng, real_budget)


def replay(ctx, w):
    xpctx.quiet()
    with xpctx.stderr_to_devnull(), xpctx.dry_experiment(ctx.scratch / "ws"):
        rec = w["recipe"]
        rec = {"steps": [s for s in rec["steps"] if not (s[0] == "submit" and s[1] == rec["root"])], "root": rec["root"], "kind": rec.get("kind", "config")}
        explore(ctx, rec, random.Random(ctx.seed), 1)
