"""C10 – job directory markers stay truthful whenever the job process dies (Engine K).

The real generated job script (real PythonScriptBuilder output, real params.json, produced by a generate-only
submission) is executed with the crash-point injector armed at TaskRunner.run: every executed line of
experimaestro/run.py and of the task body is a crash point, for SIGKILL, SIGTERM and SIGINT.  After each death the
monitor inspects the directory and the body's append-only log, tries the run lock from another process, relaunches
the script (optionally injecting again) and counts body executions."""
import json
import os
import random
import shutil
import signal
import subprocess
import time
from pathlib import Path

from xvcore import PYTHON, REPO, VERIF
from xvgen import xpctx

PROPERTY = "C10"
LEVEL = "fault_enumeration"
RULE = (
    "crash points = every line event (statement start) of experimaestro/run.py and of the task body module from TaskRunner.run to "
    "process exit, enumerated completely for the task variants {succeeds, raises, sys.exit(3), forks a child} x {SIGKILL, SIGTERM, SIGINT}; "
    "each case is followed by 1-2 relaunches (thorough: a second fault during the relaunch, sampled points in core/objects.py and "
    "notifications.py); non-trivial = the process really died at the injected point; distinct = distinct (variant, point, signal, relaunch plan)"
)
ASSUMPTIONS = [
    "crash points are statement boundaries of the Python code: a kill in the middle of a C-level call is covered as before/after the statement",
    "the pid file is written by the harness right after spawning, as CommandLineJob.aio_run does",
    "'signal received while the body runs' = the body's start record exists and its end record does not when the signal is sent",
]
SHARDS = {"quick": 16, "thorough": 16}
MINIMUMS = {
    "quick": {"crash_cases": 600, "deaths_at_point": 550, "relaunches": 600, "natural_ends": 8, "locks_tried": 300, "signal:SIGKILL": 80, "signal:SIGTERM": 80, "signal:SIGINT": 80, "signals_in_body": 30, "signals_in_finalizer": 8, "double_faults": 40, "kills_in_handler": 40, "kills_in_handler_died": 10, "kills_after_cleanup_began": 4},
    "thorough": {"crash_cases": 1200, "deaths_at_point": 1100, "relaunches": 2000, "natural_ends": 40, "locks_tried": 1200, "double_faults": 200, "signals_in_body": 120, "signals_in_finalizer": 8},
}
TIMEOUT = {"quick": 2400, "thorough": 14400}
INJECT = str(VERIF / "lib" / "inject")
VARIANTS = {"quick": ["ok", "raise", "exit3", "fork", "exit0"], "thorough": ["ok", "raise", "exit3", "fork", "exit0"]}
SUCCEEDS = ("ok", "fork", "exit0")
SIGNALS = ["SIGKILL", "SIGTERM", "SIGINT"]
QUAL = "TaskRunner,run,rmfile,TaskBase.execute,_append,fromParameters,load_objects,progress,report_eoj,Reporter,Env"
FILES_PRIMARY = "experimaestro/run.py,xvmodels/zoo.py"
FILES_SECONDARY = "experimaestro/run.py,xvmodels/zoo.py,experimaestro/core/objects.py,experimaestro/notifications.py,experimaestro/taskglobals.py"


def generate(ctx, mode, tag, gate=None):
    """A real job directory produced by a generate-only submission (gate: the body waits for a go-file there)."""
    from experimaestro import experiment
    from experimaestro.scheduler.workspace import RunMode
    from xvmodels import zoo

    wd = ctx.scratch / f"k{tag}"
    if wd.exists():
        shutil.rmtree(wd)
    xp = experiment(wd, "gen", run_mode=RunMode.GENERATE_ONLY)
    xp.__enter__()
    try:
        xp.workspace.launcher.setenv("PYTHONPATH", f"{REPO}/src:{VERIF}/lib")
        xp.workspace.launcher.setenv("XV_LOG", "body.log")
        if gate is not None:
            xp.workspace.launcher.setenv("XV_GO", str(gate))
        t = zoo.TaskT(x=7, mode=mode)
        t.submit()
        job = t.__xpm__.job
        return wd, Path(job.path), job.name
    finally:
        xpctx.leave_experiment(xp)


def launch(jobdir, name, n=0, sig="SIGKILL", files=FILES_PRIMARY, crashlog=None, timeout=90, second=None):
    env = {"PATH": os.environ.get("PATH", ""), "HOME": os.environ.get("HOME", "/tmp"), "PYTHONDONTWRITEBYTECODE": "1", "PYTHONPATH": f"{INJECT}:{REPO}/src", "VERIF_CRASH": f"{n}:{sig}:{crashlog or ''}", "VERIF_CRASH_FILES": files, "VERIF_CRASH_QUAL": QUAL}
    if second:
        env["VERIF_CRASH2"] = f"{second[0]}:{second[1]}"
    p = subprocess.Popen([PYTHON, str(jobdir / f"{name}.py")], env=env, stdout=subprocess.DEVNULL, stderr=subprocess.PIPE, cwd="/", start_new_session=True)
    (jobdir / f"{name}.pid").write_text(json.dumps({"type": "local", "pid": p.pid}))
    try:
        _, err = p.communicate(timeout=timeout)
    except subprocess.TimeoutExpired:
        try:
            os.killpg(p.pid, signal.SIGKILL)
        except Exception:
            pass
        p.wait()
        return None, "timeout"
    return p.returncode, err.decode(errors="replace")[-400:]


def snapshot(jobdir, name):
    log = (jobdir / "body.log").read_text().splitlines() if (jobdir / "body.log").is_file() else []
    return {
        "done": (jobdir / f"{name}.done").is_file(),
        "failed": (jobdir / f"{name}.failed").is_file(),
        "pid": (jobdir / f"{name}.pid").is_file(),
        "starts": sum(1 for l in log if l.startswith("start")),
        "ends_ok": sum(1 for l in log if l.startswith("end") and l.endswith("ok")),
        "ends": sum(1 for l in log if l.startswith("end")),
    }


def try_lock(jobdir, name):
    """Can another process obtain the run lock?  (checked from a separate process: fcntl locks do not exclude in-process)"""
    code = "import fasteners,sys; l=fasteners.InterProcessLock(sys.argv[1]); ok=l.acquire(blocking=False); print('LOCKED' if ok else 'BUSY'); ok and l.release()"
    pr = subprocess.run([PYTHON, "-S", "-c", "import sys; sys.path[:0]=['/venv/lib/python3.12/site-packages']\n" + code, str(jobdir / f"{name}.lock")], capture_output=True, text=True, timeout=60)
    return "LOCKED" in pr.stdout


def crash_points(ctx, mode, files):
    wd, jobdir, name = generate(ctx, mode, f"log-{mode}-{random.randrange(10**9)}")
    try:
        log = wd / "points.log"
        rc, err = launch(jobdir, name, 0, "SIGKILL", files, str(log))
        pts = log.read_text().splitlines() if log.is_file() else []
        nat = snapshot(jobdir, name)
        return pts, rc, nat, err
    finally:
        shutil.rmtree(wd, ignore_errors=True)


def check_natural(ctx, mode, snap, rc, w, what):
    """Invariants after a process that ended on its own."""
    ctx.count("natural_ends")
    if snap["pid"]:
        ctx.violation("pid-file-left-after-natural-end:" + ("success" if mode in SUCCEEDS else "failure"), f"{what}: the job ended on its own (exit status {rc}) and left its .pid file", w)
    if mode in SUCCEEDS:
        if not snap["done"] or snap["failed"]:
            ctx.violation("markers-after-success", f"{what}: success leaves done={snap['done']} failed={snap['failed']}", w)
    else:
        if snap["done"] or not snap["failed"]:
            ctx.violation("markers-after-failure", f"{what}: failure leaves done={snap['done']} failed={snap['failed']}", w)


def one_case(ctx, mode, n, sig, files, point, second=None, nrelaunch=2):
    tag = f"{mode}-{n}-{sig}-{random.randrange(10**9)}"
    wd, jobdir, name = generate(ctx, mode, tag)
    w = {"variant": mode, "point": n, "where": point, "signal": sig, "files": files, "second": second}
    try:
        before = snapshot(jobdir, name)
        rc, err = launch(jobdir, name, n, sig, files)
        ctx.count("crash_cases")
        ctx.count("signal:" + sig)
        if rc is None:
            ctx.inconclusive(f"victim timed out ({w})")
            return
        snap = snapshot(jobdir, name)
        w["first_launch"] = {"exit": rc, "after": snap, "stderr": err[-300:]}
        died = rc == -getattr(signal, sig) or (sig != "SIGKILL" and rc != 0)
        if rc == -getattr(signal, sig) or sig != "SIGKILL":
            ctx.count("deaths_at_point")
        # (1) success marker only if the body ran to completion
        if snap["done"] and snap["ends_ok"] == 0:
            ctx.violation("done-marker-without-completed-body", f"killed at {point} with {sig}: .done exists but the body never wrote its end record", w)
        # (2) the run lock dies with the process
        ctx.count("locks_tried")
        if not try_lock(jobdir, name):
            ctx.violation("lock-survives-process", f"killed at {point} with {sig}: the run lock cannot be obtained by another process", w)
        # (3) termination signal while the body runs
        in_body = snap["starts"] == 1 and snap["ends"] == 0
        if sig in ("SIGTERM", "SIGINT") and in_body:
            ctx.count("signals_in_body")
            if not snap["failed"] or snap["done"]:
                ctx.violation("signal-in-body-markers", f"{sig} at {point} while the body runs: failed={snap['failed']} done={snap['done']}", w)
        # (4) relaunches: the body runs exactly when no success marker exists
        for k in range(nrelaunch if second is None else 2):
            pre = snapshot(jobdir, name)
            if second is not None and k == 0:
                ctx.count("double_faults")
                rc2, err2 = launch(jobdir, name, second[0], second[1], files)
                if rc2 is None:
                    ctx.inconclusive("relaunch timed out (lock not released?)")
                    return
                continue
            rc2, err2 = launch(jobdir, name, 0, "SIGKILL", files)
            ctx.count("relaunches")
            if rc2 is None:
                ctx.violation("relaunch-hangs", f"after {sig} at {point}: the relaunched script did not finish (run lock still held?)", w)
                return
            post = snapshot(jobdir, name)
            ran = post["starts"] - pre["starts"]
            if pre["done"] and ran != 0:
                ctx.violation("body-runs-despite-success-marker", f"relaunch after {sig} at {point}: .done existed but the body ran again", w)
            if not pre["done"] and ran != 1:
                ctx.violation("body-not-run-without-success-marker", f"relaunch after {sig} at {point}: no .done but the body ran {ran} times (stderr: {err2[-200:]})", w)
            if post["done"] and post["ends_ok"] == 0:
                ctx.violation("done-marker-without-completed-body", f"relaunch after {sig} at {point}", w)
            check_natural(ctx, mode, post, rc2, w, f"relaunch {k + 1} after {sig} at {point}")
        ctx.case({"v": mode, "n": n, "s": sig, "f": files, "2": second}, nontrivial=died, sample={"variant": mode, "point": point, "signal": sig, "exit": rc, "after": snap}, max_samples=3)
    finally:
        shutil.rmtree(wd, ignore_errors=True)


def swallowed_exit(ctx, mode):
    """A termination signal whose handler runs where the interpreter ignores exceptions (a finalizer inside the body):
    the exit requested by the runner's handler does not happen and the body goes on to its end."""
    wd, jobdir, name = generate(ctx, mode, f"{mode}-{random.randrange(10**9)}")
    w = {"variant": mode, "point": 0, "where": "finalizer inside the task body", "signal": "SIGTERM" if mode == "termdel" else "SIGINT", "files": FILES_PRIMARY, "second": None}
    try:
        rc, err = launch(jobdir, name, 0, "SIGKILL", FILES_PRIMARY)
        if rc is None:
            ctx.inconclusive(f"victim timed out ({w})")
            return
        snap = snapshot(jobdir, name)
        ctx.count("signals_in_finalizer")
        if snap["starts"] != 1:
            ctx.inconclusive(f"the body did not start ({snap}, {err[-200:]})")
            return
        if not snap["failed"] or snap["done"]:
            ctx.violation("signal-in-body-markers:handler-exit-swallowed", f"{w['signal']} handled inside a finalizer of the body (the handler's exit is ignored there, the body went on: {snap['ends_ok']} end record, exit status {rc}): failed={snap['failed']} done={snap['done']}", w)
        ctx.case({"v": mode}, nontrivial=True, sample={"variant": mode, "exit": rc, "after": snap}, max_samples=1)
    finally:
        shutil.rmtree(wd, ignore_errors=True)


def kill_in_handler(ctx, mode, sig, m):
    """A termination signal sent from outside while the body waits, then SIGKILL at the m-th line event counted from the
    first line of the runner's handler - while it writes the failure marker, removes the process file, releases the
    lock, reports the end of the job.  Whenever the handler got as far as removing the process file, the failure marker
    must already be there."""
    tag = f"kh-{mode}-{sig}-{m}-{random.randrange(10**9)}"
    gate = ctx.scratch / f"gate-{tag}"
    gate.mkdir(parents=True, exist_ok=True)
    wd, jobdir, name = generate(ctx, mode, tag, gate=gate)
    w = {"variant": mode, "point": m, "where": f"line event {m} of the signal handler", "signal": sig, "files": FILES_PRIMARY, "second": ["kill-in-handler", m]}
    p = None
    try:
        env = {"PATH": os.environ.get("PATH", ""), "HOME": os.environ.get("HOME", "/tmp"), "PYTHONDONTWRITEBYTECODE": "1", "PYTHONPATH": f"{INJECT}:{REPO}/src", "VERIF_CRASH": f"{m}:SIGKILL:", "VERIF_CRASH_FILES": FILES_PRIMARY, "VERIF_CRASH_QUAL": QUAL, "VERIF_CRASH_ARM": "TaskRunner.handle_error"}
        p = subprocess.Popen([PYTHON, str(jobdir / f"{name}.py")], env=env, stdout=subprocess.DEVNULL, stderr=subprocess.DEVNULL, cwd="/", start_new_session=True)
        (jobdir / f"{name}.pid").write_text(json.dumps({"type": "local", "pid": p.pid}))
        t0 = time.time()
        while time.time() - t0 < 60 and snapshot(jobdir, name)["starts"] == 0 and p.poll() is None:
            time.sleep(0.01)
        if snapshot(jobdir, name)["starts"] != 1 or p.poll() is not None:
            ctx.inconclusive(f"kill-in-handler: the body did not reach its waiting point ({snapshot(jobdir, name)})")
            return
        os.kill(p.pid, getattr(signal, sig))
        try:
            rc = p.wait(60)
        except subprocess.TimeoutExpired:
            ctx.inconclusive("kill-in-handler: the victim did not end")
            return
        snap = snapshot(jobdir, name)
        ctx.count("kills_in_handler")
        in_body = snap["starts"] == 1 and snap["ends"] == 0
        if rc == -signal.SIGKILL:
            ctx.count("kills_in_handler_died")
            if in_body and not snap["pid"]:
                ctx.count("kills_after_cleanup_began")
        if in_body and not snap["pid"] and not snap["failed"] and rc == -signal.SIGKILL:
            ctx.violation("failure-marker-missing-after-cleanup", f"{sig} while the body runs, SIGKILL at line event {m} of the handler: the process file is already removed (cleanup ran) but there is no failure marker: {snap}", w)
        if snap["done"]:
            ctx.violation("done-marker-without-completed-body", f"{sig} while the body waits, SIGKILL at line event {m} of the handler: .done exists", w)
        ctx.case({"v": mode, "s": sig, "kill-in-handler": m}, nontrivial=True, sample={"variant": mode, "signal": sig, "handler_line_event": m, "exit": rc, "after": snap}, max_samples=2)
    finally:
        if p is not None and p.poll() is None:
            try:
                os.killpg(p.pid, signal.SIGKILL)
            except Exception:
                pass
            p.wait()
        shutil.rmtree(wd, ignore_errors=True)
        shutil.rmtree(gate, ignore_errors=True)


def worker(ctx):
    xpctx.quiet()
    rng = ctx.rng
    with xpctx.stderr_to_devnull():
        swallowed_exit(ctx, "termdel" if ctx.shard % 2 == 0 else "intdel")
        cases = []
        for mode in VARIANTS[ctx.tier]:
            pts, rc, nat, err = crash_points(ctx, mode, FILES_PRIMARY)
            if len(pts) < 10:
                ctx.inconclusive(f"injector recorded only {len(pts)} crash points for variant {mode}: {err[-200:]}")
                return
            ctx.count(f"points:{mode}", len(pts) if ctx.shard == 0 else 0)
            if ctx.shard == 0:
                check_natural(ctx, mode, nat, rc, {"variant": mode, "point": 0, "signal": None}, "uninjected run")
            for i, p in enumerate(pts):
                for sig in SIGNALS:
                    cases.append((mode, i + 1, sig, FILES_PRIMARY, p.split(" ", 1)[1], None))
            if mode in SUCCEEDS:
                # a launch that succeeds, then a launch of the finished job hit by a catchable signal, then a third one
                shared = random.Random(f"c10-{os.environ.get('VERIF_SEED', '0')}-{mode}")  # the same sample in every shard
                for j in sorted(shared.sample(range(len(pts)), min(len(pts), 30 if ctx.tier == "quick" else 60))):
                    cases.append((mode, 0, "SIGKILL", FILES_PRIMARY, "no fault in the first launch", (j + 1, shared.choice(["SIGTERM", "SIGINT"]))))
            if ctx.tier == "thorough":
                pts2, _, _, _ = crash_points(ctx, mode, FILES_SECONDARY)
                for _ in range(60):
                    i = rng.randrange(len(pts2))
                    cases.append((mode, i + 1, rng.choice(SIGNALS), FILES_SECONDARY, pts2[i].split(" ", 1)[1], None))
                for _ in range(40):
                    i = rng.randrange(len(pts))
                    j = rng.randrange(len(pts))
                    cases.append((mode, i + 1, rng.choice(SIGNALS), FILES_PRIMARY, pts[i].split(" ", 1)[1], (j + 1, rng.choice(SIGNALS))))
        # second fault inside the handler: {SIGTERM, SIGINT} from outside while the body waits x SIGKILL at handler line m
        khs = [("ok", sg, m) for m in range(1, 25) for sg in ("SIGTERM", "SIGINT")]
        for k, kh in enumerate(khs):
            if k % ctx.nshards == ctx.shard:
                kill_in_handler(ctx, *kh)
        # complete enumeration, split between the shards
        cases.sort(key=lambda c: (c[0], c[1], c[2], c[3], str(c[5])))
        if ctx.tier == "quick":
            # quick: every point for the succeeding and the raising task, every second point for the other two
            cases = [c for c in cases if c[0] in ("ok", "raise") or c[1] % 2 == 0 or c[5] is not None]
        for k, c in enumerate(cases):
            if k % ctx.nshards == ctx.shard:
                one_case(ctx, *c, nrelaunch=1 if ctx.tier == "quick" else 2)


def evidence_extra(counters, sets):
    return {"exhaustive": False, "crash_points_per_variant": {k[7:]: v for k, v in counters.items() if k.startswith("points:")}}


def replay(ctx, w):
    xpctx.quiet()
    with xpctx.stderr_to_devnull():
        if w["variant"] in ("termdel", "intdel"):
            return swallowed_exit(ctx, w["variant"])
        one_case(ctx, w["variant"], w["point"], w["signal"] or "SIGKILL", w.get("files", FILES_PRIMARY), w.get("where", "?"), tuple(w["second"]) if w.get("second") else None)
