"""C01 – a configuration's identifier is a pure function of its content.

Monitors on every generated graph:
  M1 reference: real raw/full identifier of every node == independent reference encoder (xvref.sig),
     which never caches, after each of the histories below
  M2 metamorphic histories: other keyword / dict-insertion order; other request order; sealed first /
     sealed in between / requested before sealing; requests of an unrelated graph in between;
     dry-run submit (job.relpath derives from the identifier); all first-request orders on small cycles
  M3 cross-process: the same recipes are built in worker processes running under different
     PYTHONHASHSEED values and the identifiers compared
  M4 pinned corpus: /verif/pinned/identifiers.json holds recipes with the identifiers of the pinned release
"""
import itertools
import json
import random
from pathlib import Path

from xvgen import build, idlib, recipes, xpctx
from xvgen.schema import type_id

PROPERTY = "C01"
LEVEL = "exploration"
RULE = (
    "seeded random configuration graphs (1-14 nodes; nested, shared and cyclic sub-configurations, task outputs, "
    "lists, dicts, enums, pre/init tasks), each rebuilt under ~8 histories (orders of keywords, dict insertion, "
    "sealing and identifier requests); non-trivial = graph has >= 3 nodes and a shared node, a cycle, a container "
    "of configurations or a task output; distinct = distinct canonical recipe JSON"
)
ASSUMPTIONS = [
    "the reference encoder (lib/xvref/sig.py) and the pinned corpus stand in for 'earlier releases': no earlier release is reachable offline",
    "cyclic graphs are exercised through seal() and identifier requests, never through submit() (submit of a cyclic graph ends in RecursionError, outside the property)",
    "dict keys are strings; integers stay within int64",
]
SHARDS = {"quick": 16, "thorough": 16}
HASHSEEDS = ["0", "1", "random", "4242"]
MINIMUMS = {
    "quick": {"distinct_nontrivial": 400, "ids_compared": 50000, "sealed_cyclic_orders": 400, "pinned_checked": 100, "cross_keys_compared": 40, "submit_variants": 100, "modify_histories": 500, "modify_seal_histories": 400},
    "thorough": {"distinct_nontrivial": 10000, "ids_compared": 1500000, "sealed_cyclic_orders": 5000, "pinned_checked": 100, "cross_keys_compared": 40, "submit_variants": 3000, "modify_histories": 15000, "modify_seal_histories": 10000},
}
N = {"quick": 1600, "thorough": 48000}
TIMEOUT = {"quick": 2400, "thorough": 14400}
PINNED = Path(__file__).resolve().parents[1] / "pinned" / "identifiers.json"
NCOMMON = 48


def compare(ctx, recipe, b, ref, nids, label, sh):
    bad = 0
    for nid in nids:
        x = b.real[nid].__xpm__
        raw, full = x.raw_identifier.all.hex(), x.full_identifier.all.hex()
        ctx.count("ids_compared", 2)
        rr, rf = ref.raw(nid).hex(), ref.full(nid).hex()
        if raw != rr or full != rf:
            bad += 1
            cyc = sh.has_cycle_below(nid)
            mech = ("sealed-cyclic-history" if cyc and "seal" in label else ("cyclic-history" if cyc else "history")) + ":" + label.split("/")[0]
            ctx.violation(
                "id-depends-on-" + mech,
                f"node {nid} ({sh.nodes[nid].cls}) after history '{label}': raw {raw[:12]} (reference {rr[:12]}), full {full[:12]} (reference {rf[:12]})",
                {"recipe": recipe, "history": label, "node": nid},
            )
            if bad > 2:
                break
    return bad == 0


def sealstep(recipe, nid):
    return ["seal", nid]


def run_history(ctx, recipe, sh, ref, label, fn):
    """Build the recipe afresh and let fn(b) play a history of seals/requests."""
    try:
        b = build.Builder().run(recipe)
        fn(b)
    except RecursionError:
        ctx.count("recursion_errors")
    except Exception as e:
        ctx.violation("history-raises", f"history '{label}' raised {e!r}", {"recipe": recipe, "history": label})


def explore(ctx, recipe, rng, other=None):
    sh, ref = idlib.shadow_of(recipe)
    root = recipe["root"]
    nids = list(sh.nodes)
    is_task = recipe["kind"] == "task"
    builder = build.Builder()
    from experimaestro.xpmutils import DirectoryContext

    def seal(b, nid):
        b.real[nid].__xpm__.seal(DirectoryContext(Path("/xvseal")))

    def real_nids(b):
        return [n for n in nids if n in b.real]

    # V0 creation order, unsealed
    def v0(b):
        compare(ctx, recipe, b, ref, real_nids(b), "creation-order", sh)

    run_history(ctx, recipe, sh, ref, "creation-order", v0)

    # V1 other keyword / dict orders
    r1 = recipes.permute_orders(recipe, rng)
    run_history(ctx, r1, sh, ref, "keyword-dict-order", lambda b: compare(ctx, r1, b, ref, real_nids(b), "keyword-dict-order", sh))

    # V2 other request order, with an unrelated graph's identifiers requested in between
    def v2(b):
        order = real_nids(b)
        rng.shuffle(order)
        ob = build.Builder().run(other) if other is not None else None
        for i, nid in enumerate(order):
            if ob is not None and i % 2 == 0:
                k = rng.choice(list(ob.real))
                ob.real[k].__xpm__.identifier
            compare(ctx, recipe, b, ref, [nid], "request-order", sh)
        compare(ctx, recipe, b, ref, order, "request-order/second-pass", sh)

    run_history(ctx, recipe, sh, ref, "request-order", v2)

    # V8 identifiers requested, then an unsealed node is modified: the next request must see the new content
    cands = [(nid, pn) for nid in nids if not sh.nodes[nid].implicit and not sh.nodes[nid].sealed for pn in ("i", "v", "x", "k") if pn in sh.nodes[nid].values]
    if cands:
        nid8, pn8 = rng.choice(cands)
        newv = rng.choice([31337, 31338, -7])
        r8 = {"steps": recipe["steps"] + [["set", nid8, pn8, newv]], "root": root, "kind": recipe["kind"]}
        sh8, ref8 = idlib.shadow_of(r8)

        def v8(b):
            order = real_nids(b)
            rng.shuffle(order)
            compare(ctx, recipe, b, ref, order, "request-modify-request/before", sh)
            builder.step(["set", nid8, pn8, newv], b)
            ctx.count("modify_histories")
            compare(ctx, r8, b, ref8, order, "request-modify-request", sh8)

        run_history(ctx, recipe, sh, ref, "request-modify-request", v8)

        # V9 identifiers requested, an unsealed node modified, then the graph is sealed WITHOUT asking again in between:
        # what was computed for the former content must not become the sealed node's identifier
        def v9(b):
            order = real_nids(b)
            rng.shuffle(order)
            compare(ctx, recipe, b, ref, order, "request-modify-seal/before", sh)
            builder.step(["set", nid8, pn8, newv], b)
            try:
                seal(b, root)
                if nid8 in b.real and not b.real[nid8].__xpm__._sealed:
                    seal(b, nid8)  # not reachable from the root (e.g. behind a task boundary): sealed on its own
            except RecursionError:
                raise
            ctx.count("modify_seal_histories")
            rng.shuffle(order)
            compare(ctx, r8, b, ref8, order, "request-modify-seal", sh8)

        run_history(ctx, recipe, sh, ref, "request-modify-seal", v9)

    if not is_task:
        # V3 seal the root first, then any request order, twice
        def v3(b):
            seal(b, root)
            order = real_nids(b)
            rng.shuffle(order)
            compare(ctx, recipe, b, ref, order, "seal-root-first", sh)
            rng.shuffle(order)
            compare(ctx, recipe, b, ref, order, "seal-root-first/second-pass", sh)

        run_history(ctx, recipe, sh, ref, "seal-root-first", v3)

        # V4 seal an inner node first, request, seal the root, request
        def v4(b):
            inner = rng.choice(real_nids(b))
            seal(b, inner)
            order = real_nids(b)
            rng.shuffle(order)
            compare(ctx, recipe, b, ref, order[: max(1, len(order) // 2)], "seal-inner-first", sh)
            seal(b, root)
            rng.shuffle(order)
            compare(ctx, recipe, b, ref, order, "seal-inner-first/after-root", sh)

        run_history(ctx, recipe, sh, ref, "seal-inner-first", v4)

        # V5 requests before sealing, then sealed
        def v5(b):
            order = real_nids(b)
            rng.shuffle(order)
            compare(ctx, recipe, b, ref, order[: max(1, len(order) // 2)], "request-then-seal", sh)
            seal(b, root)
            rng.shuffle(order)
            compare(ctx, recipe, b, ref, order, "request-then-seal/sealed", sh)

        run_history(ctx, recipe, sh, ref, "request-then-seal", v5)

        # V7 small cycles: every first-request order of the cycle members after sealing
        cyc = [n for n in nids if sh.in_cycle(n)]
        if 0 < len(cyc) <= 4:
            for perm in itertools.permutations(cyc):
                ctx.count("sealed_cyclic_orders")

                def v7(b, perm=perm):
                    seal(b, rng.choice(cyc + [root]))
                    rest = [n for n in real_nids(b) if n not in perm]
                    compare(ctx, recipe, b, ref, list(perm) + rest, "seal-cycle-order", sh)
                    compare(ctx, recipe, b, ref, rest + list(reversed(perm)), "seal-cycle-order/second-pass", sh)

                run_history(ctx, recipe, sh, ref, "seal-cycle-order", v7)
        elif len(cyc) > 4:
            for _ in range(6):
                perm = cyc[:]
                rng.shuffle(perm)
                ctx.count("sealed_cyclic_orders")

                def v7b(b, perm=perm):
                    seal(b, root)
                    compare(ctx, recipe, b, ref, perm, "seal-cycle-order", sh)

                run_history(ctx, recipe, sh, ref, "seal-cycle-order", v7b)
    else:
        # V6 dry-run submit: identifiers before == after; job directory derives from the identifier
        rs = {"steps": recipe["steps"] + [["submit", root, []]], "root": root, "kind": "task"}
        sh2, ref2 = idlib.shadow_of(rs)

        def v6(b0):
            before = build.all_ids(b0, [n for n in nids if n in b0.real])
            b = build.Builder().run(rs)
            ctx.count("submit_variants")
            order = [n for n in sh2.nodes if n in b.real]
            rng.shuffle(order)
            compare(ctx, rs, b, ref2, order, "dry-run-submit", sh2)
            after = build.all_ids(b, list(before))
            for nid in before:
                if before[nid] != after[nid]:
                    ctx.violation("id-changes-at-submit", f"node {nid}: {before[nid]} before submit, {after[nid]} after", {"recipe": rs, "history": "dry-run-submit", "node": nid})
            job = b.real[root].__xpm__.job
            want = f"{type_id(sh2.nodes[root].cls)}/{ref2.full(root).hex()}"
            if str(job.relpath) != want:
                ctx.violation("relpath-not-from-identifier", f"job.relpath {job.relpath} != {want}", {"recipe": rs, "history": "dry-run-submit", "node": root})

        run_history(ctx, recipe, sh, ref, "dry-run-submit", v6)

    nt = idlib.nontrivial(recipe, sh)
    ctx.case(recipe["steps"], nontrivial=nt, sample={"root": root, "kind": recipe["kind"], "steps": recipe["steps"]}, max_samples=2)
    for f in idlib.features(recipe, sh):
        ctx.count("feature:" + f)


def worker(ctx):
    xpctx.quiet()
    n = max(1, N[ctx.tier] // ctx.nshards)
    with xpctx.stderr_to_devnull(), xpctx.dry_experiment(ctx.scratch / "ws"):
        # M3 common recipes, identical in every shard, built under this shard's hash seed
        crng = random.Random(ctx.base_seed * 7919 + 1)
        for i in range(NCOMMON):
            rec = recipes.generate(crng)
            try:
                b = build.Builder().run(rec)
                ctx.crosscheck(f"common{i}", build.all_ids(b))
            except RecursionError:
                pass
            except Exception as e:
                ctx.violation("history-raises", f"identifier request raised {e!r}", {"recipe": rec, "history": "common"})
        # M4 pinned corpus (split between the shards)
        pinned = json.loads(PINNED.read_text()) if PINNED.is_file() else []
        for i, entry in enumerate(pinned):
            if i % ctx.nshards != ctx.shard:
                continue
            rec = entry["recipe"]
            try:
                b = build.Builder().run(rec)
                got = build.all_ids(b, list(entry["ids"]))
            except Exception as e:
                ctx.violation("history-raises", f"pinned recipe {i}: identifier request raised {e!r}", {"recipe": rec, "history": "pinned"})
                continue
            ctx.count("pinned_checked")
            for nid, (raw, full) in entry["ids"].items():
                if list(got[nid]) != [raw, full]:
                    ctx.violation("id-differs-from-pinned", f"pinned recipe {i} node {nid}: {got[nid]} != pinned {[raw, full]}", {"recipe": rec, "history": "pinned", "node": nid})
                    break
        # M1/M2 random graphs
        prev = None
        cyclic = recipes.Profile(p_cycle=0.95, root_classes=["Rec", "Rec", "Node", "Holder"], p_share=0.5)
        for i in range(n):
            rec = recipes.generate(ctx.rng, cyclic if i % 4 == 3 else None)
            explore(ctx, rec, ctx.rng, other=prev)
            prev = rec


def replay(ctx, w):
    xpctx.quiet()
    with xpctx.stderr_to_devnull(), xpctx.dry_experiment(ctx.scratch / "ws"):
        explore(ctx, {"steps": w["recipe"]["steps"], "root": w["recipe"]["root"], "kind": w["recipe"].get("kind", "config")}, random.Random(ctx.seed))
