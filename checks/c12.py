"""C12 – saving and loading a configuration graph loses nothing.

Channels: state_dict/from_state_dict (single configuration, list and dict of configurations), save/load, __json__/fromParameters,
serialize/deserialize, and the params.json written by the real command context of a generate-only submission (read back both
with from_task_dir and the way the repair tool does).  Oracle: isomorphism checker (classes, every parameter value including
ignored and generated ones, floats bit-wise, container shapes, aliasing pattern, meta flags, pre/init task lists, producing
task) + identifiers recomputed on the copy.  Runtime side: the generated job script is executed for real; the task body
echoes the parameter values (with object identities) and tags it observes."""
import json
import os
import random
import shutil
import subprocess
from pathlib import Path

from xvcore import PYTHON, REPO, VERIF
from xvgen import build, idlib, recipes, xpctx
from xvref import iso

PROPERTY = "C12"
LEVEL = "exploration"
RULE = (
    "seeded random graphs over all supported parameter types (scalars incl. -0.0/nan/inf/int64 bounds/unicode, paths, enums, lists, "
    "dicts, optionals, nested/shared/cyclic configurations, task outputs, meta flags True/False, pre-tasks, init tasks) x 5-7 channels; "
    "a sample of task graphs is also executed as a real job process that echoes what it observes; non-trivial = >= 3 nodes with a shared "
    "node, a container of configurations, a task output, a meta flag or a pre/init task; distinct = distinct recipes"
)
ASSUMPTIONS = [
    "values are compared through ConfigInformation.values (raw storage) on both sides",
    "a list element None is not generated (it is rejected at assignment, C15)",
    "the real job process is started directly from the generated script (the scheduler's part is covered by C04-C11)",
]
SHARDS = {"quick": 16, "thorough": 16}
MINIMUMS = {
    "quick": {"distinct_nontrivial": 900, "roundtrips": 7000, "nodes_compared": 60000, "ids_compared": 60000, "channel:params.json": 150, "tag_sets_compared": 150, "channel:params.json/repair-tool": 150, "real_processes": 16, "feature:meta:False": 100, "feature:init": 100, "feature:cycle": 40},
    "thorough": {"distinct_nontrivial": 30000, "roundtrips": 220000, "nodes_compared": 2000000, "ids_compared": 2000000, "channel:params.json": 5000, "channel:params.json/repair-tool": 5000, "real_processes": 160, "feature:meta:False": 3000, "feature:init": 3000, "feature:cycle": 1200},
}
N = {"quick": 1600, "thorough": 48000}
NREAL = {"quick": 2, "thorough": 10}  # per shard
TIMEOUT = {"quick": 2400, "thorough": 14400}


def classify(diffs):
    d = " ".join(diffs)
    if "meta flag False became None" in d and all("meta flag False became None" in x for x in diffs):
        return "meta-false-dropped"
    if "init tasks became 0" in d and all("init tasks became" in x for x in diffs):
        return "init-tasks-dropped"
    return None


def check_loaded(ctx, recipe, channel, orig, loaded, extra=None):
    ctx.count("roundtrips")
    ctx.count("channel:" + channel)
    r = iso.compare_configs(orig, loaded)
    ctx.count("nodes_compared", len(r.pairs))
    w = {"recipe": recipe, "channel": channel}
    if r.diffs:
        mech = classify(r.diffs) or "reload-differs"
        ctx.violation(mech + ":" + channel.split("/")[0] if mech == "reload-differs" else mech, f"{channel}: {r.diffs[:3]}", w)
        return False
    # identifiers recomputed on the copy
    bad = None
    for path, a, b in r.pairs:
        ctx.count("ids_compared", 2)
        try:
            ia, ib = a.__xpm__.identifier.all.hex(), b.__xpm__.identifier.all.hex()
            ra, rb = a.__xpm__.raw_identifier.all.hex(), b.__xpm__.raw_identifier.all.hex()
        except Exception as e:
            ctx.violation("reloaded-identifier-raises:" + channel.split("/")[0], f"{channel} {path}: {e!r}", w)
            return False
        if (ia, ra) != (ib, rb):
            bad = (path, ia, ib)
            break
    if bad:
        ctx.violation("reloaded-identifier-differs:" + channel.split("/")[0], f"{channel} {bad[0]}: identifier {bad[1][:12]} recomputed as {bad[2][:12]} on the reloaded graph", w)
        return False
    return True


def roundtrips(ctx, recipe, b, root, rng, scratch):
    from experimaestro import SerializationContext, from_state_dict, load, save, state_dict
    from experimaestro.core.objects import ConfigInformation

    orig = b.real[root]
    # 1 state dictionary (through JSON text, as it would be stored)
    sd = json.loads(json.dumps(state_dict(SerializationContext(), orig)))
    check_loaded(ctx, recipe, "state_dict", orig, from_state_dict(sd))
    # 1b containers of configurations
    others = [o for n, o in b.real.items() if n != root][:2]
    if others:
        lst = [orig] + others + [orig]
        sd = json.loads(json.dumps(state_dict(SerializationContext(), lst)))
        back = from_state_dict(sd)
        ctx.count("roundtrips")
        ctx.count("channel:state_dict/list")
        r = iso.Iso("config")
        r.value("root", lst, back)
        if r.diffs:
            ctx.violation(classify(r.diffs) or "reload-differs:state_dict", f"state_dict of a list: {r.diffs[:3]}", {"recipe": recipe, "channel": "state_dict/list"})
        dct = {"a": orig, "b": others[0], "c": orig}
        sd = json.loads(json.dumps(state_dict(SerializationContext(), dct)))
        back = from_state_dict(sd)
        ctx.count("channel:state_dict/dict")
        r = iso.Iso("config")
        r.value("root", dct, back)
        if r.diffs:
            ctx.violation(classify(r.diffs) or "reload-differs:state_dict", f"state_dict of a dict: {r.diffs[:3]}", {"recipe": recipe, "channel": "state_dict/dict"})
    # 2 save / load
    d = scratch / f"save{rng.randrange(10**9)}"
    d.mkdir()
    try:
        save(orig, d)
        check_loaded(ctx, recipe, "save-load", orig, load(d))
    finally:
        shutil.rmtree(d, ignore_errors=True)
    # 3 __json__ / fromParameters
    defs = json.loads(orig.__json__())
    check_loaded(ctx, recipe, "__json__", orig, ConfigInformation.fromParameters(defs, as_instance=False, discard_id=True))
    check_loaded(ctx, recipe, "__json__/keep-id", orig, ConfigInformation.fromParameters(json.loads(orig.__json__()), as_instance=False))
    # 4 serialize / deserialize
    d = scratch / f"ser{rng.randrange(10**9)}"
    d.mkdir()
    try:
        orig.__xpm__.serialize(d)
        check_loaded(ctx, recipe, "serialize", orig, ConfigInformation.deserialize(d, as_instance=False))
    finally:
        shutil.rmtree(d, ignore_errors=True)


def explore(ctx, recipe, rng, real_budget):
    from experimaestro import experiment, from_task_dir
    from experimaestro.scheduler.workspace import RunMode
    from experimaestro.tools.jobs import load_job

    root = recipe["root"]
    sh, _ = idlib.shadow_of(recipe)
    for f in idlib.features(recipe, sh):
        ctx.count("feature:" + f)
    try:
        b = build.Builder().run(recipe)
        roundtrips(ctx, recipe, b, root, rng, ctx.scratch)
        if recipe["kind"] == "task":
            # the same after a dry-run submission (sealed, generated values present, task links set)
            build.Builder().step(["submit", root, [n for n in []]], b)
            roundtrips(ctx, {"steps": recipe["steps"] + [["submit", root, []]], "root": root, "kind": "task"}, b, root, rng, ctx.scratch)
    except RecursionError:
        return real_budget
    except Exception as e:
        ctx.violation("roundtrip-raises", f"{e!r}", {"recipe": recipe, "channel": "?"})
        return real_budget

    # 5 params.json written by the real command context (generate-only run of the whole recipe)
    if recipe["kind"] == "task" and rng.random() < 0.3:
        inits = []
        r2 = {"steps": list(recipe["steps"]), "root": root, "kind": "task"}
        if rng.random() < 0.5:
            r2["steps"] += [["new", "xi1", "Init", [["k", 11]]], ["new", "xi2", "Init", [["k", 12]]]]
            inits = ["xi1", "xi2"]
        r2["steps"].append(["submit", root, inits])
        wd = ctx.scratch / f"gen{rng.randrange(10**9)}"
        xp = experiment(wd, "gx", run_mode=RunMode.GENERATE_ONLY)
        xp.__enter__()
        try:
            xp.workspace.launcher.setenv("PYTHONPATH", f"{REPO}/src:{VERIF}/lib")
            xp.workspace.launcher.setenv("XV_ECHO", "1")
            b2 = build.Builder().run(r2)
            task = b2.real[root]
            task.tag("echo", "yes")
            job = task.__xpm__.job
            pj = Path(job.path) / "params.json"
            # tags are written when the script is generated: regenerate after tagging
            xp.prepare(job)
            loaded = from_task_dir(job.path)
            check_loaded(ctx, r2, "params.json", task, loaded)
            # tags written for the job process: those of every configuration reachable from the task (harness's own walk)
            sh2, _ = idlib.shadow_of(r2)
            cand = {"echo": ["yes"]}
            for m in sh2.reachable(root, through_task=True):
                for k, v in sh2.nodes[m].tags.items():
                    cand.setdefault(k, []).append(v)
            written = json.loads(pj.read_text())["tags"]
            ctx.count("tag_sets_compared")
            if sorted(written) != sorted(cand) or any(written[k] not in cand[k] for k in written):
                ctx.violation("tags-written-differ", f"tags in the parameter file {written}, configured {cand}", {"recipe": r2, "channel": "params.json"})
            _, loaded2 = load_job(pj, discard_id=True)
            if loaded2 is None:
                ctx.violation("params-unreadable", "tools.jobs.load_job could not load the parameter file", {"recipe": r2, "channel": "params.json"})
            else:
                check_loaded(ctx, r2, "params.json/repair-tool", task, loaded2)
            if real_budget > 0:
                real_budget -= 1
                run_real(ctx, r2, task, job)
        except RecursionError:
            pass
        finally:
            xp.__exit__(RuntimeError, None, None)
            shutil.rmtree(wd, ignore_errors=True)
    nt = idlib.nontrivial(recipe, sh) or any(f in idlib.features(recipe, sh) for f in ("meta:True", "meta:False", "pre", "init"))
    ctx.case(recipe["steps"], nontrivial=nt and len(sh.nodes) >= 3, sample={"root": root, "steps": recipe["steps"][:8]}, max_samples=2)
    return real_budget


def run_real(ctx, recipe, task, job):
    """Execute the generated job script for real and compare what the task body observed."""
    script = Path(job.path) / f"{job.name}.py"
    env = {"PATH": os.environ.get("PATH", ""), "HOME": os.environ.get("HOME", "/tmp"), "PYTHONDONTWRITEBYTECODE": "1", "PYTHONPATH": f"{REPO}/src"}
    try:
        pr = subprocess.run([PYTHON, str(script)], env=env, capture_output=True, text=True, timeout=120, cwd="/")
    except subprocess.TimeoutExpired:
        ctx.inconclusive("real job process timed out")
        return
    ctx.count("real_processes")
    echo = Path(job.path) / "echo.json"
    w = {"recipe": recipe, "channel": "job-process"}
    if pr.returncode != 0 or not echo.is_file():
        ctx.violation("job-process-fails-to-load", f"exit {pr.returncode}: {pr.stderr[-600:]}", w)
        return
    data = json.loads(echo.read_text())
    diffs = iso.compare_echo(task, data["params"])
    if diffs:
        ctx.violation("job-process-observes-other-values", f"{diffs[:3]}", w)
    written = json.loads((Path(job.path) / "params.json").read_text())["tags"]
    if data["tags"] != written:
        ctx.violation("job-process-observes-other-tags", f"tags {written} observed as {data['tags']}", w)
    ctx.count("echo_fields_compared", len(json.dumps(data["params"])))


def worker(ctx):
    xpctx.quiet()
    n = max(1, N[ctx.tier] // ctx.nshards)
    real_budget = NREAL[ctx.tier]
    profs = [
        None,
        recipes.Profile(p_meta=0.4, p_pre=0.4, p_init=0.6, root_classes=["TaskT", "TaskO", "Node", "Holder"]),
        recipes.Profile(p_cycle=0.9, root_classes=["Rec", "Node"], p_share=0.5),
        recipes.Profile(root_classes=["TaskT", "TaskO"], p_optional=0.7, p_task_param=0.3),
    ]
    with xpctx.stderr_to_devnull(), xpctx.dry_experiment(ctx.scratch / "ws"):
        for i in range(n):
            rec = recipes.generate(ctx.rng, profs[i % 4])
            real_budget = explore(ctx, rec, ctx.rng, real_budget)


def replay(ctx, w):
    xpctx.quiet()
    with xpctx.stderr_to_devnull(), xpctx.dry_experiment(ctx.scratch / "ws"):
        rec = w["recipe"]
        rec = {"steps": [s for s in rec["steps"] if not (s[0] == "submit" and s[1] == rec["root"])], "root": rec["root"], "kind": rec.get("kind", "config")}
        explore(ctx, rec, random.Random(ctx.seed), 1)
