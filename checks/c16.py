"""C16 – the experiment's job index lists exactly the jobs of the last completed plan.

Part A (Engine B): histories of 2-6 runs of one experiment name (random subsets of a job pool; normal end or an exception
raised in the block after a random number of submissions); after every run the harness compares xp/<name>/jobs and jobs.bak
with its own model (last completed plan, jobs begun by aborted runs) and runs the real 'orphans' command.
Part B (Engine K): the same histories in a subprocess killed at every line event of experiment.__enter__ / __exit__.
Part C: two real processes enter the same experiment of the same workspace; a holder file detects any overlap."""
import json
import os
import random
import shutil
import signal
import subprocess
import time
from pathlib import Path

from xvcore import PYTHON, REPO, VERIF, h12
from xvgen import plans, xpctx
from xvengine import planrun

from . import engb_common as E

PROPERTY = "C16"
LEVEL = "exploration"
RULE = (
    "part A: generated histories (2-6 runs, 2-6 jobs, subsets closed under dependencies, ~45% of the runs aborted by an exception after k "
    "submissions, some failing jobs) x seeded schedules; part B: every line event of experiment.__enter__ and __exit__ over a 3-run "
    "history as the instant of SIGKILL, followed by a normal run; part C: pairs of real processes contending for one experiment; "
    "non-trivial = history with an aborted run followed by another run; distinct = distinct (history, decision trace) / crash point"
)
ASSUMPTIONS = [
    "a link counts when it is a symlink at xp/<name>/jobs[.bak]/<task id>/<identifier> whose target is the job's directory path (the directory itself exists once the job has started)",
    "a run whose block ended normally may drop the backup even if wait() then raises FailedExperiment inside __exit__ (the block itself did not raise)",
    "killed runs: the model is rebuilt from the victim's append-only progress log; crash points are statement boundaries",
]
SHARDS = {"quick": 16, "thorough": 16}
TIMEOUT = {"quick": 2400, "thorough": 14400}
MINIMUMS = {
    "quick": {"histories": 300, "runs_checked": 1000, "aborted_runs": 300, "normal_runs": 400, "orphans_invocations": 1000, "crash_points": 40, "exclusivity_rounds": 4, "holder_index_observations": 16, "exclusivity_rounds_staggered": 3, "generate_only_runs": 100, "generate_only_runs_over_a_backup": 15},
    "thorough": {"histories": 8000, "runs_checked": 30000, "aborted_runs": 9000, "normal_runs": 12000, "orphans_invocations": 30000, "crash_points": 200, "exclusivity_rounds": 24},
}
N = {"quick": (480, 1, 8), "thorough": (12000, 5, 40)}
INJECT = str(VERIF / "lib" / "inject")


def part_a(ctx, n):
    for _ in range(n):
        plan = plans.gen_history(ctx.rng)
        seed = ctx.rng.randrange(10**9)
        res = E.run_one(ctx, PROPERTY, plan, seed)
        ctx.count("histories")
        for rr in res["runs"]:
            ctx.count("runs_checked")
            ctx.count("aborted_runs" if rr.get("left") != "normal" else "normal_runs")
            if "orphans_listed" in rr:
                ctx.count("orphans_invocations")
        ends = [r["end"] for r in plan["runs"]]
        nt = any(a == "exception" and i + 1 < len(ends) for i, a in enumerate(ends))
        ctx.case({"plan": plan, "t": h12(res["trace"])}, nontrivial=nt, sample={"runs": [(r["end"], r.get("abort_after"), [a[1] for a in r["actions"]]) for r in plan["runs"]], "index": [(rr.get("left"), rr.get("index_jobs"), rr.get("index_bak")) for rr in res["runs"]]}, max_samples=3)


VICTIM = """
import json, os, sys
from pathlib import Path
sys.path[:0] = [%(repo)r + "/src", %(verif)r + "/lib", %(verif)r]
from xvgen import xpctx
xpctx.quiet()
from xvengine import planrun
plan = json.loads(Path(sys.argv[1]).read_text())
wd = Path(sys.argv[2])
log = sys.argv[3]
def note(s):
    fd = os.open(log, os.O_WRONLY | os.O_APPEND | os.O_CREAT, 0o644); os.write(fd, (s + "\\n").encode()); os.close(fd)
class Mon:
    def on_run_start(self, eng, pr, i): note(f"run-start {i}")
    def on_launch(self, *a): pass
    def on_exit(self, *a): pass
    def on_foreign(self, *a): pass
    def on_observer_died(self, *a): pass
    def on_quiescent(self, eng, pr):
        for a in pr.actions_log:
            if "relpath" in a and not a.get("_noted"):
                a["_noted"] = True; note("submitted " + a["relpath"] + " " + a["jobpath"])
    def on_terminal(self, eng, pr, rr, waiter, aborted): note(f"terminal {rr['index']} {'aborted' if aborted else rr['end']}")
    def on_run_end(self, eng, pr, rr): note(f"run-end {rr['index']} {rr.get('left')}")
pr = planrun.PlanRun(plan, int(sys.argv[4]), wd)
orig = pr.hooks_factory
pr.hooks_factory = lambda: [Mon()]
orig_enter = None
from experimaestro import experiment
_enter, _exit = experiment.__enter__, experiment.__exit__
def enter(self):
    note("enter-begin"); r = _enter(self); note("enter-end"); return r
def exit_(self, et, ev, tb):
    note("exit-begin " + ("normal" if et is None else "exception")); r = _exit(self, et, ev, tb); note("exit-end"); return r
experiment.__enter__, experiment.__exit__ = enter, exit_
with xpctx.stderr_to_devnull():
    pr.run()
note("victim-done")
"""


def links(d):
    res = {}
    if d.is_dir():
        for p in d.glob("*/*"):
            if p.is_symlink():
                res[str(p.relative_to(d))] = os.readlink(p)
    return res


def model_from_log(lines):
    """(protected set, state) from the victim's progress log."""
    last_completed, begun, cur = {}, {}, {}
    state = "outside"
    for l in lines:
        parts = l.split()
        if parts[0] == "run-start":
            cur = {}
            state = "running"
        elif parts[0] == "submitted":
            cur[parts[1]] = parts[2]
        elif parts[0] == "exit-begin":
            state = "exiting-" + parts[1]
            if parts[1] == "normal":
                # the block ended without exception: this plan is the completed one from now on
                last_completed, begun = dict(cur), {}
            else:
                begun.update(cur)
        elif parts[0] == "exit-end":
            state = "outside"
            cur = {}
        elif parts[0] == "enter-begin":
            state = "entering"
    if state in ("running", "entering"):
        begun.update(cur)
    prot = dict(last_completed)
    prot.update(begun)
    return prot, state, last_completed


def part_b(ctx, nhist):
    """Kill the process at every line event of experiment.__enter__ / __exit__."""
    rng = ctx.rng
    for h in range(nhist):
        hrng = random.Random(ctx.base_seed * 31 + h)  # the same history in every shard: crash points are split between them
        plan = plans.gen_history(hrng, max_jobs=4, max_runs=3)
        plan["runs"] = plan["runs"][:3]
        plan.pop("check_orphans", None)
        if all(r["end"] == "normal" for r in plan["runs"]):
            plan["runs"][0]["end"] = "exception"
            plan["runs"][0]["abort_after"] = len(plan["runs"][0]["actions"])
        base = ctx.scratch / f"kb{h}"
        base.mkdir(exist_ok=True)
        (base / "plan.json").write_text(json.dumps(plan))
        (base / "victim.py").write_text(VICTIM % {"repo": str(REPO), "verif": str(VERIF)})
        files = "experimaestro/scheduler/base.py"
        qual = "experiment.__enter__,experiment.__exit__"

        def run_victim(n, tag):
            wd = base / f"wd{tag}"
            if wd.exists():
                shutil.rmtree(wd)
            wd.mkdir()
            env = {"PATH": os.environ.get("PATH", ""), "HOME": os.environ["HOME"], "PYTHONDONTWRITEBYTECODE": "1", "PYTHONPATH": f"{INJECT}:{REPO}/src", "PYTHONHASHSEED": "0",
                   "VERIF_CRASH": f"{n}:SIGKILL:{base / ('points%s.log' % tag) if n == 0 else ''}", "VERIF_CRASH_FILES": files, "VERIF_CRASH_QUAL": qual, "VERIF_CRASH_ARM": "experiment.__enter__", "XPM_WORKDIR": str(wd / "local")}
            try:
                pr = subprocess.run([PYTHON, str(base / "victim.py"), str(base / "plan.json"), str(wd), str(wd / "progress.log"), "7"], env=env, capture_output=True, text=True, timeout=180, start_new_session=True)
            except subprocess.TimeoutExpired:
                return None, wd
            return pr, wd

        pr0, wd0 = run_victim(0, "log")
        pts = (base / "pointslog.log").read_text().splitlines() if (base / "pointslog.log").is_file() else []
        if pr0 is None or len(pts) < 10:
            ctx.inconclusive(f"crash-point log run failed: {pr0.stderr[-300:] if pr0 else 'timeout'}")
            return
        shutil.rmtree(wd0, ignore_errors=True)
        if ctx.shard == 0:
            ctx.count("crash_points_total", len(pts))
        for i in range(len(pts)):
            if i % ctx.nshards != ctx.shard:
                continue
            pr, wd = run_victim(i + 1, f"{i}")
            ctx.count("crash_points")
            where = pts[i].split(" ", 1)[1]
            w = {"plan": plan, "point": i + 1, "where": where}
            if pr is None:
                ctx.inconclusive("victim timed out")
                continue
            if pr.returncode != -signal.SIGKILL:
                ctx.count("victim_not_killed")
                shutil.rmtree(wd, ignore_errors=True)
                continue
            lines = (wd / "progress.log").read_text().splitlines() if (wd / "progress.log").is_file() else []
            prot, state, last_completed = model_from_log(lines)
            xpdir = wd / "ws" / "xp" / "xp"
            jobs, bak = links(xpdir / "jobs"), links(xpdir / "jobs.bak")
            both = dict(bak)
            both.update(jobs)
            lost = sorted(k for k in prot if k not in both)
            if lost:
                ctx.violation("protected-job-unindexed-after-kill", f"killed at {where} (state {state}): {lost[:3]} are in neither jobs nor jobs.bak", w)
            wrong = sorted(k for k in prot if k in both and both[k] != prot[k])
            if wrong:
                ctx.violation("index-link-wrong-target", f"killed at {where}: {wrong[:3]}", w)
            # a following normal run must bring the index back to exactly its own plan
            follow = {"jobs": plan["jobs"], "tokens": [], "runs": [{"actions": [["submit", j] for j in range(len(plan["jobs"]))], "end": "normal"}]}
            frun = planrun.PlanRun(follow, 5, wd)
            res = frun.run()
            if res["inconclusive"]:
                ctx.inconclusive("follow-up run: " + res["inconclusive"])
            for v in res["violations"]:
                if PROPERTY in v["properties"]:
                    ctx.violation(v["mechanism"] + ":after-kill", f"follow-up run after a kill at {where}: {v['message']}", w)
            ctx.case({"p": plan, "n": i + 1}, nontrivial=True, sample={"point": where, "state": state, "protected": len(prot), "jobs": len(jobs), "bak": len(bak)}, max_samples=2)
            shutil.rmtree(wd, ignore_errors=True)
        shutil.rmtree(base, ignore_errors=True)


HOLDER = """
import os, sys, time
from pathlib import Path
sys.path[:0] = [%(repo)r + "/src", %(verif)r + "/lib"]
from xvgen import xpctx
xpctx.quiet()
from experimaestro import experiment
ws, holder, hold_ms, out = Path(sys.argv[1]), Path(sys.argv[2]), int(sys.argv[3]), sys.argv[4]
def note(s):
    fd = os.open(out, os.O_WRONLY | os.O_APPEND | os.O_CREAT, 0o644); os.write(fd, (s + "\\n").encode()); os.close(fd)
try:
    with xpctx.stderr_to_devnull():
        with experiment(ws, "shared", port=-1) as xp:
            if holder.exists():
                note(f"OVERLAP {os.getpid()} entered while {holder.read_text()} holds the experiment")
            holder.write_text(str(os.getpid()))
            note(f"enter {os.getpid()}")
            # the holder submits a real job: its index link must stay in place for as long as it holds the experiment,
            # whatever the processes that are refused (or wait for) the experiment do in the meantime
            from xvmodels import zoo
            xp.workspace.launcher.setenv("PYTHONPATH", %(repo)r + "/src:" + %(verif)r + "/lib")
            t = zoo.TaskT(x=os.getpid())
            t.submit()
            rel = str(t.__xpm__.job.relpath)
            def indexed():
                return (xp.jobspath / rel).is_symlink()
            t0 = time.time()
            while not indexed() and time.time() - t0 < 30:
                time.sleep(0.01)  # the link is made by the scheduler thread, shortly after submit() returns
            if not indexed():
                note(f"noindex {os.getpid()}")
            else:
                note(f"index-after-submit {os.getpid()} True")
                time.sleep(hold_ms / 1000.0)
                note(f"index-before-leave {os.getpid()} {indexed()}")
            note(f"leave {os.getpid()}")
            holder.unlink()
except BaseException as e:
    note(f"refused {os.getpid()} {type(e).__name__}")
"""


def part_c(ctx, rounds):
    for r in range(rounds):
        base = ctx.scratch / f"ex{r}"
        base.mkdir(exist_ok=True)
        (base / "holder.py").write_text(HOLDER % {"repo": str(REPO), "verif": str(VERIF)})
        env = {"PATH": os.environ.get("PATH", ""), "HOME": os.environ["HOME"], "PYTHONDONTWRITEBYTECODE": "1", "PYTHONPATH": f"{REPO}/src", "XPM_WORKDIR": str(base / "local")}
        def start(hold):
            return subprocess.Popen([PYTHON, str(base / "holder.py"), str(base / "ws"), str(base / "HOLDER"), str(hold), str(base / "log")], env=env, stdout=subprocess.DEVNULL, stderr=subprocess.DEVNULL)

        if (r + ctx.shard) % 2 == 0:
            # all at once: they race for the experiment
            procs = [start(ctx.rng.choice([100, 300, 600])) for _ in range(3)]
        else:
            # staggered: the contenders arrive while the first process holds the experiment and has a job indexed
            procs = [start(2500)]
            t0 = time.time()
            while time.time() - t0 < 60 and not any(l.startswith("index-after-submit") for l in ((base / "log").read_text().splitlines() if (base / "log").is_file() else [])):
                time.sleep(0.02)
            procs += [start(ctx.rng.choice([100, 300])) for _ in range(2)]
            ctx.count("exclusivity_rounds_staggered")
        ok = True
        for p in procs:
            try:
                p.wait(120)
            except subprocess.TimeoutExpired:
                p.kill()
                ok = False
        if not ok:
            ctx.inconclusive("exclusivity round timed out")
            continue
        lines = (base / "log").read_text().splitlines() if (base / "log").is_file() else []
        ctx.count("exclusivity_rounds")
        ctx.count("exclusivity_entries", sum(1 for l in lines if l.startswith("enter")))
        inside = None
        for l in lines:
            if l.startswith("OVERLAP"):
                ctx.violation("two-processes-in-one-experiment", l, {"log": lines})
            if l.startswith("enter"):
                if inside is not None:
                    ctx.violation("two-processes-in-one-experiment", f"{l} while {inside} is inside", {"log": lines})
                inside = l.split()[1]
            if l.startswith("leave"):
                inside = None
            if l.startswith("noindex"):
                ctx.inconclusive(f"exclusivity round: the holder's job link did not appear within 30 s ({l})")
            if l.startswith("index-"):
                ctx.count("holder_index_observations")
                if l.split()[2] != "True":
                    ctx.violation("holder-index-disturbed-by-contender", f"{l}: the job link of the process holding the experiment is missing while other processes contend for the experiment", {"log": lines})
        ctx.case({"round": r, "log": lines}, nontrivial=sum(1 for l in lines if l.startswith("enter")) >= 1, sample=lines[:8], max_samples=1)
        shutil.rmtree(base, ignore_errors=True)


def worker(ctx):
    xpctx.quiet()
    na, nb, nc = N[ctx.tier]
    with xpctx.stderr_to_devnull():
        part_a(ctx, max(1, na // ctx.nshards))
        part_b(ctx, nb)
        if ctx.shard < nc:
            part_c(ctx, max(1, nc // ctx.nshards))


replay = E.make_replay(PROPERTY)
