"""Engine-A stress parts shared by C05, C08 and C09: several real scheduler processes on one workspace / token."""
import json
import random
import shutil
import signal
import os
import time
from pathlib import Path

from xvengine import enga


def preemption_points():
    """Statements of the token / lock code (first source line of every statement inside a function), for the
    single-delay sweep: [(file suffix, stripped source line)]"""
    import ast

    from xvcore import REPO

    pts = []
    for rel in ("experimaestro/tokens.py", "experimaestro/locking.py"):
        src = (Path(REPO) / "src" / rel).read_text()
        lines = src.splitlines()
        tree = ast.parse(src)
        seen = set()
        for fn in ast.walk(tree):
            if isinstance(fn, (ast.FunctionDef, ast.AsyncFunctionDef)):
                for node in ast.walk(fn):
                    if isinstance(node, ast.stmt) and not isinstance(node, (ast.FunctionDef, ast.AsyncFunctionDef, ast.ClassDef)):
                        if isinstance(node, ast.Expr) and isinstance(getattr(node, "value", None), ast.Constant) and isinstance(node.value.value, str):
                            continue  # docstring
                        text = lines[node.lineno - 1].strip()
                        if text and (rel, text) not in seen and "logger." not in text and "logging." not in text:
                            seen.add((rel, text))
                            pts.append((rel, text))
    return pts


def run_stress(ctx, prop, kind, rng, delay_at=None):
    """kind: 'same-jobs' (C05) | 'token' (C08) | 'token-kill' (C09); delay_at: (file, statement) of a directed preemption"""
    case = enga.Case(ctx.scratch / f"a{rng.randrange(10**9)}")
    w = {"kind": kind}
    try:
        nsched = rng.choice([2, 3])
        total = rng.choice([1, 2, 3])
        tokens = [{"name": f"stress{rng.randrange(10**6)}", "total": total}]
        plans = []
        amounts = {}
        if kind == "same-jobs":
            njobs = rng.randint(2, 4)
            jobs = []
            for x in range(njobs):
                deps = [{"on": rng.randrange(x), "how": rng.choice(["direct", "lst"])}] if x > 0 and rng.random() < 0.5 else []
                jobs.append({"x": x, "deps": deps, "hold": rng.choice([50, 150, 300])})
            for s in range(nsched):
                plans.append({"name": f"xp{s}", "jobs": jobs, "tokens": [], "env": case.job_env(go=False)})
            xs = list(range(njobs))
        else:
            x = 0
            for s in range(nsched):
                jobs = []
                for _ in range(rng.randint(2, 4)):
                    n = rng.randint(1, total)
                    jobs.append({"x": x, "tokens": [{"tok": 0, "n": n}], "hold": rng.choice([100, 200, 400])})
                    amounts[x] = n
                    x += 1
                plans.append({"name": f"xp{s}", "jobs": jobs, "tokens": tokens, "env": case.job_env(go=False)})
            xs = list(range(x))
        w["plans"] = [{"name": p["name"], "jobs": p["jobs"]} for p in plans]
        w["total"] = total
        extra = {"XV_LOGLEVEL": "INFO"}
        if delay_at is not None:
            # single-delay sweep: every execution of one statement of the token / lock code is delayed, in every scheduler
            ms = rng.choice([20, 60, 150])
            extra["VERIF_DELAY_AT"] = f"{delay_at[0]}::{delay_at[1]}::{ms}"
            w["delay_at"] = [delay_at[0], delay_at[1], ms]
            ctx.count("enga_runs_with_directed_delay")
            ctx.distinct([delay_at[0], delay_at[1]], "distinct_delayed_statements")
        elif rng.random() < 0.5:
            # preemption injection in the token / lock / file-watcher code of every scheduler process
            extra["VERIF_DELAY"] = f"{rng.randrange(10**6)}:{rng.choice([0.02, 0.05, 0.15])}:{rng.choice([1, 3, 8])}:{case.base / 'delays.log'}"
            w["delay"] = extra["VERIF_DELAY"].rsplit(":", 1)[0]
            ctx.count("enga_runs_with_preemption_injection")
        hs = [case.start(p, cert=True, extra_env=extra) for p in plans]
        killed = None
        if kind == "token-kill":
            # kill one scheduler while one of its jobs is running (its token must come back once the job has ended)
            victim = hs[0]
            mine = {j["x"] for j in plans[0]["jobs"]}
            t0 = time.time()
            while time.time() - t0 < 40:
                ev = enga.parse_body(case.body_log())
                if any(e[0] == "start" and e[1] in mine for e in ev):
                    break
                if victim["proc"].poll() is not None:
                    break
                time.sleep(0.005)
            try:
                os.kill(victim["proc"].pid, signal.SIGKILL)
                killed = victim
            except ProcessLookupError:
                pass
        for h in hs:
            if h is killed:
                case.wait_exit(h, 10)
                continue
            if not case.wait_exit(h, 120):
                msg = enga.quiescent_hang(case, h)
                if msg:
                    try:
                        os.kill(h["proc"].pid, signal.SIGUSR1)
                        time.sleep(0.5)
                        txt = (case.base / f"{h['tag']}.err").read_text()
                        i = txt.find("Thread 0x")
                        msg += " | log: " + " ;; ".join(l for l in txt[:i].splitlines() if ("xpm" in l or "rror" in l) and "hash" not in l)[-3000:]
                        msg += " | progress: " + " ;; ".join(l for l in case.progress(h) if l.startswith("job-coroutine-died"))[:1200]
                        msg += " | threads: " + " ; ".join(l.strip() for l in txt[i:].splitlines() if l.strip().startswith("File") and ("experimaestro" in l or "watchdog" in l))[:1500]
                    except Exception:
                        pass
                    ctx.violation("scheduler-hangs-at-quiescence:" + kind, msg, w)
                else:
                    ctx.inconclusive(f"engine A: scheduler did not finish within the watchdog ({kind}); certificate {case.certificates(h)}")
                return
        ctx.count("enga_runs")
        ctx.count("enga_schedulers", nsched)
        dl = case.base / "delays.log"
        if dl.is_file():
            for l in dl.read_text().splitlines():
                parts = l.split()
                if len(parts) == 3:
                    ctx.count("enga_injected_delays", int(parts[1]))
                    ctx.count("enga_delay_candidate_lines", int(parts[2]))
        ev = enga.parse_body(case.body_log())
        ctx.count("enga_body_events", len(ev))
        w["log"] = case.body_log()[:60]
        results = [case.result(h) for h in hs if h is not killed]
        for r, h in zip(results, [h for h in hs if h is not killed]):
            if r is None:
                err = (case.base / f"{h['tag']}.err").read_text()[-400:]
                ctx.violation("scheduler-crashed:" + kind, f"a scheduler process ended without result: {err}", w)
                return
            bad = {k: s for k, s in r["states"].items() if s != "DONE"}
            if bad or r["outcome"] != "returned":
                ctx.violation("stress-final-states:" + kind, f"a scheduler ended {r['outcome']} with {r['states']}", w)
        if kind == "same-jobs":
            for x, msg in enga.exactly_once(ev, xs):
                if "start records" in msg and msg.startswith("1 "):
                    continue
                ctx.violation("body-run-twice:" + msg.split()[0], f"job {x}: {msg} (log: {case.body_log()})", w)
        else:
            over = enga.capacity_sweep(ev, amounts, total)
            if over:
                ctx.violation("capacity-exceeded-across-processes", f"token total {total}: running bodies held {over[0]} ({over[1]}); log {case.body_log()}", w)
            if kind == "token-kill" or prop == "C09":
                # the killed scheduler's jobs finish on their own; whoever watches the directory reclaims their tokens
                t0 = time.time()
                while case.token_files() and time.time() - t0 < 15:
                    time.sleep(0.1)
                live = [p for p in case.job_pids() if case.alive(p)]
                if case.token_files() and not live:
                    # nobody is left to reclaim: the next user of the token (a fresh token object) must get it all back
                    ctx.count("enga_fresh_token_recounts")
                    code = (
                        "import sys, time, logging; logging.disable(logging.CRITICAL)\n"
                        "from pathlib import Path\n"
                        "from experimaestro.tokens import CounterToken\n"
                        "t = CounterToken('fresh', Path(sys.argv[1]), int(sys.argv[2]), force=False)\n"
                        "t0 = time.time()\n"
                        "while list(Path(sys.argv[1]).glob('*.token')) and time.time() - t0 < 10: time.sleep(0.05)\n"
                        "time.sleep(0.3)\n"
                        "print('AVAILABLE', t.available, len(list(Path(sys.argv[1]).glob('*.token'))), flush=True)\n"
                        "import os; os._exit(0)\n"
                    )
                    import subprocess
                    from xvcore import PYTHON, REPO

                    tokdir = next(case.local.glob("tokens/*"))
                    pr = subprocess.run([PYTHON, "-c", code, str(tokdir), str(total)], capture_output=True, text=True, timeout=60, env={"PATH": os.environ.get("PATH", ""), "HOME": os.environ["HOME"], "PYTHONPATH": f"{REPO}/src", "XPM_WORKDIR": str(case.local)})
                    out = [l for l in pr.stdout.splitlines() if l.startswith("AVAILABLE")]
                    if not out or out[0].split()[1:] != [str(total), "0"]:
                        ctx.violation("token-not-given-back-to-next-user", f"after every scheduler and job ended a fresh token object sees {out or pr.stderr[-300:]} (total {total}); files {case.token_files()}", w)
            mine_done = {e[1] for e in ev if e[0] == "end" and e[3]}
            survivors_jobs = {j["x"] for p, h in zip(plans, hs) if h is not killed for j in p["jobs"]}
            if not survivors_jobs <= mine_done:
                ctx.violation("waiting-job-never-ran-across-processes", f"jobs {sorted(survivors_jobs - mine_done)} of a surviving scheduler never completed", w)
        ctx.case({"k": kind, "plans": w["plans"], "log": len(ev)}, nontrivial=True, sample={"kind": kind, "schedulers": nsched, "total": total, "log": case.body_log()[:12]}, max_samples=1)
    finally:
        case.cleanup()
        shutil.rmtree(case.base, ignore_errors=True)


def run_second_launch(ctx, rng):
    """C05, task side: the job script is started a second time while the first process runs the body (what a
    scheduler that lost the race does); the second process must wait on the run lock and then skip the body."""
    import subprocess

    from xvcore import PYTHON, REPO, VERIF
    from experimaestro import experiment
    from experimaestro.scheduler.workspace import RunMode
    from xvmodels import zoo

    wd = ctx.scratch / f"sl{rng.randrange(10**9)}"
    xp = experiment(wd, "gen", run_mode=RunMode.GENERATE_ONLY)
    xp.__enter__()
    try:
        xp.workspace.launcher.setenv("PYTHONPATH", f"{REPO}/src:{VERIF}/lib")
        xp.workspace.launcher.setenv("XV_LOG", "body.log")
        xp.workspace.launcher.setenv("XV_GO", str(wd / "go"))
        t = zoo.TaskT(x=rng.randint(1, 99))
        t.submit()
        job = t.__xpm__.job
        jobdir, name, x = Path(job.path), job.name, t.x
    finally:
        xp.__exit__(RuntimeError, None, None)
    (wd / "go").mkdir(exist_ok=True)
    env = {"PATH": os.environ.get("PATH", ""), "HOME": os.environ["HOME"], "PYTHONDONTWRITEBYTECODE": "1", "PYTHONPATH": f"{REPO}/src"}
    procs = []
    w = {"kind": "second-launch"}
    try:
        nsecond = rng.choice([1, 2])
        env1 = dict(env)
        # own random stream: the other choices of the case stay what they were
        slow_end = random.Random(x * 7919 + nsecond).random() < 0.6
        if slow_end:
            # directed preemption of the first process between the end of the body and the success marker: whoever is
            # let through the run lock in that window must not find the marker missing (seed C05-e)
            env1["PYTHONPATH"] = f"{VERIF}/lib/inject:{REPO}/src"
            env1["VERIF_DELAY_AT"] = "experimaestro/run.py::sys.exit(0)::400;;experimaestro/run.py::self.donepath.touch()::400"
            w["slow_end"] = True
            ctx.count("second_launch_slow_end")
        p1 = subprocess.Popen([PYTHON, str(jobdir / f"{name}.py")], env=env1, stdout=subprocess.DEVNULL, stderr=subprocess.DEVNULL, cwd="/")
        procs.append(p1)
        log = jobdir / "body.log"
        t0 = time.time()
        while time.time() - t0 < 60 and not (log.is_file() and "start" in log.read_text()):
            time.sleep(0.01)
        if not log.is_file():
            ctx.inconclusive("second-launch: the first process did not start its body")
            return
        for _ in range(nsecond):
            procs.append(subprocess.Popen([PYTHON, str(jobdir / f"{name}.py")], env=env, stdout=subprocess.DEVNULL, stderr=subprocess.DEVNULL, cwd="/"))
        # wait until every late process has opened the run lock (it is then blocked on it): decided on /proc, not on time
        lockname = f"{name}.lock"
        t0 = time.time()
        while time.time() - t0 < 60:
            waiting = 0
            for p in procs[1:]:
                try:
                    fds = [os.readlink(f"/proc/{p.pid}/fd/{f}") for f in os.listdir(f"/proc/{p.pid}/fd")]
                except OSError:
                    fds = []
                if any(x.endswith(lockname) for x in fds):
                    waiting += 1
            if waiting == len(procs) - 1:
                break
            time.sleep(0.02)
        else:
            ctx.inconclusive("second-launch: the late process never reached the run lock")
            return
        time.sleep(0.05)
        (wd / "go" / "goall").touch()
        for p in procs:
            try:
                p.wait(90)
            except subprocess.TimeoutExpired:
                ctx.violation("second-launch-hangs", "a second process of the same job did not finish", w)
                return
        lines = log.read_text().splitlines()
        ctx.count("second_launch_cases")
        starts = sum(1 for l in lines if l.startswith("start"))
        if starts != 1:
            ctx.violation("body-run-twice:second-launch", f"the job script was started {1 + nsecond} times while the first body was running; the body ran {starts} times: {lines}", w)
        if not (jobdir / f"{name}.done").is_file():
            ctx.violation("second-launch-no-success-marker", f"no success marker after {lines}", w)
        ctx.case({"k": "second-launch", "n": nsecond, "x": x}, nontrivial=True, sample={"kind": "second-launch", "log": lines}, max_samples=1)
    finally:
        for p in procs:
            if p.poll() is None:
                p.kill()
        shutil.rmtree(wd, ignore_errors=True)


RACES = [
    # (name, VERIF_DELAY_AT directives): a stale token file is reclaimed (deleted) by its watcher thread ...
    # ... while the second full update of CounterToken.__init__ has listed the file but not yet put it in the cache
    ("reclaim-during-second-update", "experimaestro/tokens.py::self.cache[path.name] = tf::300;;experimaestro/tokens.py::self.delete()::450"),
    # ... before the filesystem watcher is registered (first update still running)
    ("reclaim-before-watcher", "experimaestro/tokens.py::self.cache[path.name] = tf::300;;experimaestro/tokens.py::self.delete()::100"),
    # ... after everything is set up
    ("reclaim-after-setup", "experimaestro/tokens.py::self.delete()::900"),
]


def run_directed_race(ctx, rng):
    """Directed preemption (VERIF_DELAY_AT): a token object is created on a directory that holds the token file of a
    job that no longer exists; wherever the reclaim of that file falls relative to the object's own start-up, the object
    must end up with no token file and its full capacity in memory."""
    import subprocess

    from xvcore import PYTHON, REPO, VERIF

    name, directives = RACES[rng.randrange(len(RACES))]
    total = rng.choice([1, 2, 3])
    held = rng.randint(1, total)
    base = ctx.scratch / f"race{rng.randrange(10**9)}"
    tok = base / "tok"
    tok.mkdir(parents=True)
    (base / "nojob").mkdir()
    (tok / "stale.token").write_text(f"{held}\n{base / 'nojob' / 'job'}")
    code = (
        "import sys, os, time, logging; logging.disable(logging.CRITICAL)\n"
        "from pathlib import Path\n"
        "from experimaestro.tokens import CounterToken\n"
        "d = Path(sys.argv[1])\n"
        "t = CounterToken('race', d, int(sys.argv[2]))\n"
        "t0 = time.time()\n"
        "while list(d.glob('*.token')) and time.time() - t0 < 20: time.sleep(0.05)\n"
        "time.sleep(1.0)\n"
        "print('AVAILABLE', t.available, len(list(d.glob('*.token'))), flush=True)\n"
        "os._exit(0)\n"
    )
    w = {"race": name, "directives": directives, "total": total, "held_by_stale_file": held}
    try:
        env = {"PATH": os.environ.get("PATH", ""), "HOME": os.environ["HOME"], "PYTHONPATH": f"{VERIF}/lib/inject:{REPO}/src", "XPM_WORKDIR": str(base / "local"), "VERIF_DELAY_AT": directives, "PYTHONDONTWRITEBYTECODE": "1"}
        try:
            pr = subprocess.run([PYTHON, "-c", code, str(tok), str(total)], capture_output=True, text=True, timeout=90, env=env)
        except subprocess.TimeoutExpired:
            ctx.inconclusive(f"directed race {name}: timeout")
            return
        out = [l for l in pr.stdout.splitlines() if l.startswith("AVAILABLE")]
        if not out:
            ctx.inconclusive(f"directed race {name}: no output ({pr.stderr[-300:]})")
            return
        ctx.count("directed_races")
        ctx.count("directed_race:" + name)
        avail, files = out[0].split()[1:]
        if files != "0":
            ctx.violation("stale-token-file-not-reclaimed:" + name, f"{files} token file(s) left 20 s after the token object was created", w)
        elif int(avail) != total:
            ctx.violation("in-memory-availability-drift:" + name, f"no token file is left but the token object counts {avail} of {total} available (the stale file held {held}): jobs needing more would wait forever", w)
        ctx.case({"race": name, "total": total, "held": held}, nontrivial=True, sample=w, max_samples=1)
    finally:
        shutil.rmtree(base, ignore_errors=True)


def run_generate_between(ctx, rng):
    """A normal run, then a generate-only run of the same tasks (job files written again, nothing scheduled), then a normal
    run: the jobs that succeeded in the first run must not be executed again."""
    case = enga.Case(ctx.scratch / f"g{rng.randrange(10**9)}")
    w = {"kind": "generate-between"}
    try:
        njobs = rng.randint(1, 3)
        jobs = []
        for x in range(njobs):
            deps = [{"on": rng.randrange(x), "how": rng.choice(["direct", "lst"])}] if x > 0 and rng.random() < 0.5 else []
            jobs.append({"x": x, "deps": deps, "hold": 0, "mode": rng.choice(["ok", "ok", "exit0"])})  # exit0: the body ends with sys.exit(0)
        w["jobs"] = jobs
        env = case.job_env(go=False)
        order = ["normal", "generate", "normal"] if rng.random() < 0.7 else ["normal", "generate", "generate", "normal"]
        w["runs"] = order
        for i, mode in enumerate(order):
            plan = {"name": "xp", "jobs": jobs, "tokens": [], "env": env}
            if mode == "generate":
                plan["run_mode"] = "generate"
            h = case.start(plan)
            if not case.wait_exit(h, 120):
                ctx.inconclusive(f"generate-between: run {i} ({mode}) did not end")
                return
            r = case.result(h)
            if r is None:
                err = (case.base / f"{h['tag']}.err").read_text()[-400:]
                ctx.violation("scheduler-crashed:generate-between", f"run {i} ({mode}) ended without result: {err}", w)
                return
            if mode == "normal" and (r["outcome"] != "returned" or any(s != "DONE" for s in r["states"].values())):
                ctx.violation("stress-final-states:generate-between", f"run {i} ended {r['outcome']} with {r['states']}", w)
        ctx.count("generate_between_cases")
        ev = enga.parse_body(case.body_log())
        w["log"] = case.body_log()[:30]
        for x, msg in enga.exactly_once(ev, list(range(njobs))):
            ctx.violation("body-run-again-after-generate-only-run", f"job {x}: {msg} over the runs {order} (log: {case.body_log()})", w)
        ctx.case({"k": "generate-between", "jobs": jobs, "runs": order}, nontrivial=True, sample={"runs": order, "log": case.body_log()[:8]}, max_samples=1)
    finally:
        case.cleanup()
        shutil.rmtree(case.base, ignore_errors=True)


def run_retotal(ctx, rng):
    """One scheduler process runs two experiment blocks one after the other; the second one defines the same token again
    with a larger total.  Whatever the library makes of the new definition, the bodies running at the same time must
    never hold more than the total that is in force (the larger one bounds both)."""
    case = enga.Case(ctx.scratch / f"t{rng.randrange(10**9)}")
    w = {"kind": "retotal"}
    try:
        name = f"retotal{rng.randrange(10**6)}"
        t1 = rng.choice([1, 2])
        t2 = t1 + rng.choice([1, 2])
        amounts = {}
        x = 0
        first = []
        for _ in range(rng.randint(2, 3)):
            n = rng.randint(1, t1)
            first.append({"x": x, "tokens": [{"tok": 0, "n": n}], "hold": 100})
            amounts[x] = n
            x += 1
        second = []
        for _ in range(rng.randint(8, 10)):
            n = rng.randint(1, t1)  # fits under both definitions (whether the new total takes effect inside one process is not part of the property)
            second.append({"x": x, "tokens": [{"tok": 0, "n": n}], "hold": rng.choice([100, 200])})
            amounts[x] = n
            x += 1
        plan = {"name": "xp", "env": case.job_env(go=False), "before": [{"jobs": first, "tokens": [{"name": name, "total": t1}]}], "jobs": second, "tokens": [{"name": name, "total": t2}]}
        w.update({"first_total": t1, "second_total": t2, "first": first, "second": second})
        h = case.start(plan, cert=True)
        if not case.wait_exit(h, 180):
            msg = enga.quiescent_hang(case, h)
            if msg:
                ctx.violation("scheduler-hangs-at-quiescence:retotal", msg, w)
            else:
                ctx.inconclusive("retotal: scheduler did not finish within the watchdog")
            return
        r = case.result(h)
        ctx.count("retotal_cases")
        ev = enga.parse_body(case.body_log())
        w["log"] = case.body_log()[:40]
        if r is None or r["outcome"] != "returned" or any(s != "DONE" for s in r["states"].values()):
            ctx.violation("stress-final-states:retotal", f"the scheduler ended {r and r['outcome']} with {r and r['states']}", w)
        over = enga.capacity_sweep([e for e in ev if e[1] >= len(first)], amounts, t2)
        if over:
            ctx.violation("capacity-exceeded:token-defined-again", f"second definition of the token (total {t2}, first {t1}): running bodies held {over[0]} ({over[1]}); log {case.body_log()}", w)
        over1 = enga.capacity_sweep([e for e in ev if e[1] < len(first)], amounts, t1)
        if over1:
            ctx.violation("capacity-exceeded-across-processes", f"first block, total {t1}: running bodies held {over1[0]}", w)
        ctx.case({"k": "retotal", "t1": t1, "t2": t2, "n": len(second)}, nontrivial=True, sample={"totals": [t1, t2], "log": case.body_log()[:10]}, max_samples=1)
    finally:
        case.cleanup()
        shutil.rmtree(case.base, ignore_errors=True)
