"""Child-process side of C20 (deprecation cannot be undone in-process, so every phase runs in a fresh interpreter).

    phase1 <workdir> <specs.json> <manifest.json>      (no deprecation) record job directories under former identifiers
    identity <specs.json> <out.json>                   (XV_DEPRECATE=1) identifiers with deprecated vs replacement classes
    phase3 <workdir> <manifest.json> <state> <cleanup 0|1> <out.json>   (XV_DEPRECATE=1) repair and inspect
"""
import json
import os
import shutil
import sys
from pathlib import Path

from xvgen import xpctx

xpctx.quiet()

REPLACE = {"OldCfg": "NewCfg", "OldProducer": "NewProducer", "OldTaskMoved": "NewTask", "OldTaskRenamed": "NewTask"}


def build(spec, replace_old=False, submit_up=True):
    from xvmodels import dep

    def C(name):
        return getattr(dep, REPLACE.get(name, name) if replace_old else name)

    def cfg(c):
        return None if c is None else C(c["cls"])(v=c["v"], **({"w": c["w"]} if "w" in c else {}))

    kw = {"x": spec["x"]}
    if spec.get("cfg"):
        kw["cfg"] = cfg(spec["cfg"])
    if spec.get("cfgs"):
        kw["cfgs"] = [cfg(c) for c in spec["cfgs"]]
    if spec.get("cmap"):
        kw["cmap"] = {k: cfg(c) for k, c in spec["cmap"].items()}
    if spec.get("wrap"):
        w = spec["wrap"]
        kw["wrap"] = dep.Wrap(inner=cfg(w["inner"]), many=[cfg(c) for c in w.get("many", [])], named={k: cfg(c) for k, c in w.get("named", {}).items()})
    if spec.get("up"):
        p = C(spec["up"]["producer"])(x=spec["up"]["x"])
        kw["up"] = p.submit()
    t = C(spec["task"])(**kw)
    inits = [dep.DepInit(k=k) for k in spec.get("init", [])]
    return t, inits


def all_ids(t):
    """Identifiers of the task and of everything nested in it (by position)."""
    res = {"root": t.__xpm__.identifier.all.hex()}
    x = t.__xpm__.values
    if x.get("cfg") is not None:
        res["cfg"] = x["cfg"].__xpm__.identifier.all.hex()
    for i, c in enumerate(x.get("cfgs") or []):
        res[f"cfgs{i}"] = c.__xpm__.identifier.all.hex()
    for k, c in (x.get("cmap") or {}).items():
        res[f"cmap{k}"] = c.__xpm__.identifier.all.hex()
    if x.get("wrap") is not None:
        res["wrap"] = x["wrap"].__xpm__.identifier.all.hex()
    if x.get("up") is not None:
        res["up"] = x["up"].__xpm__.identifier.all.hex()
        res["up.task"] = x["up"].__xpm__.task.__xpm__.identifier.all.hex()
    return res


def inventory(d):
    return sorted(str(p.relative_to(d)) for p in d.rglob("*") if p.is_file() or p.is_symlink())


def phase1(wd, specs_path, manifest_path):
    from experimaestro import experiment
    from experimaestro.scheduler.workspace import RunMode

    wd = Path(wd)
    specs = json.loads(Path(specs_path).read_text())
    out = []
    with xpctx.stderr_to_devnull():
        xp = experiment(wd, "old", run_mode=RunMode.GENERATE_ONLY)
        xp.__enter__()
        try:
            xp.workspace.launcher.setenv("PYTHONPATH", os.environ.get("XV_JOB_PYTHONPATH", ""))
            for i, spec in enumerate(specs):
                t, inits = build(spec)
                t.submit(init_tasks=inits)
                job = t.__xpm__.job
                # the identifier the replacement classes give, computed without any deprecation
                t2, inits2 = build(spec, replace_old=True)
                t2.submit(init_tasks=inits2, run_mode=RunMode.DRY_RUN)
                job2 = t2.__xpm__.job
                jp = Path(job.path)
                (jp / f"{job.name}.done").touch()
                (jp / "payload.txt").write_text(f"nonce-{i}-{spec['x']}")
                (jp / "sub").mkdir(exist_ok=True)
                (jp / "sub" / "data.bin").write_text("x" * 10)
                rec = {"spec": spec, "old_rel": str(job.relpath), "new_rel": str(job2.relpath), "old_name": job.name, "new_name": job2.name, "nonce": f"nonce-{i}-{spec['x']}", "files": inventory(jp), "ids_old_classes": all_ids(t), "ids_new_classes": all_ids(t2)}
                up = t.__xpm__.values.get("up")
                if up is not None:
                    pj = up.__xpm__.task.__xpm__.job
                    (Path(pj.path) / f"{pj.name}.done").touch()
                out.append(rec)
        finally:
            xp.__exit__(RuntimeError, None, None)
    (wd / ".__experimaestro__").touch()
    Path(manifest_path).write_text(json.dumps(out))


def identity(specs_path, out_path):
    from experimaestro import experiment
    from experimaestro.scheduler.workspace import RunMode
    import tempfile

    specs = json.loads(Path(specs_path).read_text())
    res = []
    wd = Path(tempfile.mkdtemp(dir=os.environ.get("XV_SCRATCH", "/dev/shm")))
    with xpctx.stderr_to_devnull():
        xp = experiment(wd, "id", run_mode=RunMode.DRY_RUN)
        xp.__enter__()
        try:
            for spec in specs:
                a, ia = build(spec)
                b, ib = build(spec, replace_old=True)
                a.submit(init_tasks=ia)
                b.submit(init_tasks=ib)
                res.append({"spec": spec, "deprecated": all_ids(a), "replacement": all_ids(b), "rel_deprecated": str(a.__xpm__.job.relpath), "rel_replacement": str(b.__xpm__.job.relpath)})
        finally:
            xp.__exit__(RuntimeError, None, None)
    shutil.rmtree(wd, ignore_errors=True)
    Path(out_path).write_text(json.dumps(res))


def snapshot(ws):
    """Everything under jobs/: (relative path, kind, link target or size)."""
    res = []
    jobs = ws / "jobs"
    for root, dirs, files in os.walk(jobs, followlinks=False):
        for n in list(dirs) + files:
            p = Path(root) / n
            rel = str(p.relative_to(jobs))
            if p.is_symlink():
                res.append((rel, "link", os.readlink(p)))
            elif p.is_file():
                res.append((rel, "file", p.stat().st_size if n != "params.json" else -1))
    return sorted(res)


def phase3(wd, manifest_path, state, cleanup, out_path):
    from click.testing import CliRunner
    from experimaestro import experiment
    from experimaestro.cli import cli
    from experimaestro.scheduler.workspace import RunMode

    ws = Path(wd)
    man = json.loads(Path(manifest_path).read_text())
    changed = [m for m in man if m["old_rel"] != m["new_rel"]]
    report = {"state": state, "cleanup": bool(int(cleanup)), "jobs": [], "errors": []}
    # ---- prior state
    if state == "dangling-link":
        for m in changed[::2]:
            new = ws / "jobs" / m["new_rel"]
            new.parent.mkdir(parents=True, exist_ok=True)
            new.symlink_to(ws / "jobs" / "nowhere" / "gone")
    elif state == "partially-repaired":
        for m in changed[::2]:
            new = ws / "jobs" / m["new_rel"]
            new.parent.mkdir(parents=True, exist_ok=True)
            if not new.exists():
                new.symlink_to(ws / "jobs" / m["old_rel"])
    runner = CliRunner()

    def repair(clean):
        args = ["deprecated", "list", "--fix"] + (["--cleanup"] if clean else []) + [str(ws)]
        r = runner.invoke(cli, args)
        if r.exception is not None and not isinstance(r.exception, SystemExit):
            report["errors"].append(f"{args[:-1]} raised {r.exception!r}")

    def unreachable():
        bad = []
        for m in man:
            new = ws / "jobs" / m["new_rel"]
            if not (new.exists() and (new / "payload.txt").is_file() and (new / "payload.txt").read_text() == m["nonce"]):
                bad.append(m["old_rel"])
        return bad

    report["unreachable_after"] = []
    with xpctx.stderr_to_devnull():
        if state in ("already-linked", "cleanup-after-link"):
            repair(False)
            report["unreachable_after"].append(["repair 1 (link)", unreachable()])
        repair(bool(int(cleanup)) or state == "cleanup-after-link")
        report["unreachable_after"].append(["repair" + (" (cleanup)" if bool(int(cleanup)) or state == "cleanup-after-link" else " (link)"), unreachable()])
        snap1 = snapshot(ws)
        repair(bool(int(cleanup)) or state == "cleanup-after-link")
        snap2 = snapshot(ws)
        report["idempotent"] = snap1 == snap2
        if snap1 != snap2:
            report["idempotence_diff"] = [x for x in snap2 if x not in snap1][:5] + [x for x in snap1 if x not in snap2][:5]
        # ---- inspection
        xp = experiment(ws, "new", run_mode=RunMode.DRY_RUN)
        xp.__enter__()
        try:
            for m in man:
                t, inits = build(m["spec"])
                t.submit(init_tasks=inits)
                job = t.__xpm__.job
                j = {"old_rel": m["old_rel"], "new_rel": m["new_rel"], "rel_now": str(job.relpath), "task": m["spec"]["task"], "init": bool(m["spec"].get("init"))}
                new = ws / "jobs" / m["new_rel"]
                j["reachable"] = new.exists() and (new / "payload.txt").is_file() and (new / "payload.txt").read_text() == m["nonce"]
                old = ws / "jobs" / m["old_rel"]
                where = new if new.exists() else old
                have = set(inventory(where.resolve())) if where.exists() else set()
                # marker / script files may legitimately get additional names; nothing recorded may disappear
                j["missing_files"] = sorted(f for f in m["files"] if f not in have and f != "params.json.tmp")[:5]
                j["data_present_somewhere"] = any((p / "payload.txt").is_file() and (p / "payload.txt").read_text() == m["nonce"] for p in (ws / "jobs").glob("*/*"))
                j["done_found_on_resubmit"] = Path(job.donepath).is_file()
                j["donepath"] = str(Path(job.donepath).relative_to(ws))
                report["jobs"].append(j)
        finally:
            xp.__exit__(RuntimeError, None, None)
    Path(out_path).write_text(json.dumps(report))


if __name__ == "__main__":
    mode = sys.argv[1]
    {"phase1": phase1, "identity": identity, "phase3": phase3}[mode](*sys.argv[2:])
