"""C08 – jobs running under a token never hold more than its capacity (Engine B part)"""
from xvgen.plans import PlanProfile

from . import enga_common as A
from . import engb_common as E

PROPERTY = "C08"
LEVEL = "exploration"
RULE = (
    "generated plans with 1-2 file tokens (totals 1-4, heterogeneous requests 1..total, two-token jobs), foreign acquisitions and releases through a second token object on the same directory (including acquisitions whose notification is still queued), x seeded schedules; monitor = the harness's own ledger (launch adds, exit removes, foreign likewise) and the sum of the on-disk token files at every quiescent point; non-trivial = >= 2 jobs under a token; distinct = distinct (plan, decision trace)"
)
ASSUMPTIONS = [
    "job processes are simulated (launch = SimProcessBuilder.start, exit = the driver selecting the process's waiter); the task runner itself is covered by C10",
    "other processes sharing a token directory are modelled by a driver-serialised foreign agent (a second real CounterToken object): its sections run atomically, as they do under the inter-process lock",
    "asyncio's own FIFO order inside the loop is never perturbed; helper-thread completions, cross-thread posts, process exits and filesystem notifications are delivered in seeded orders",
    "ledger intervals (launch..exit) are contained in the real holding intervals, so the ledger cannot raise a false alarm",
]
SHARDS = E.SHARDS
TIMEOUT = E.TIMEOUT
MINIMUMS = {"quick": {"enga_runs": 10, "retotal_cases": 10, "distinct_plan_trace": 3000, "launch_events": 8000, "feature:foreign": 120, "feature:tokens:2": 60}, "thorough": {"distinct_plan_trace": 100000, "launch_events": 250000, "feature:foreign": 3000, "feature:tokens:2": 2000}}
PROFILES = [PlanProfile(tokens=1, p_token=0.9, max_jobs=7, p_edge=0.2), PlanProfile(tokens=2, p_token=0.9, two_tokens=0.6, p_edge=0.2), PlanProfile(tokens=1, p_token=0.9, foreign=0.9, p_edge=0.2), PlanProfile(tokens=2, p_token=0.8, foreign=0.7, two_tokens=0.5, p_fail=0.2)]
_engb_worker = E.make_worker(PROPERTY, PROFILES, {"quick": 1600, "thorough": 40000}, {"quick": 5, "thorough": 6}, nontrivial=lambda plan: sum(1 for j in plan["jobs"] if j["tokens"]) >= 2)
replay = E.make_replay(PROPERTY)


NREAL = {"quick": 1, "thorough": 8}  # Engine-A stress runs per shard


def worker(ctx):
    """Engine B part (controlled schedules) followed by the Engine A part (real scheduler processes)."""
    import os

    if not os.environ.get("XV_ONLY_ENGA"):  # (exploration aid: only the real-process part)
        _engb_worker(ctx)
    for _ in range(NREAL[ctx.tier]):
        A.run_stress(ctx, PROPERTY, "token", ctx.rng)
        A.run_retotal(ctx, ctx.rng)
    # single-delay sweep over the statements of the token / lock code (quick: one statement per shard; thorough: all)
    pts = A.preemption_points()
    mine = pts[ctx.shard :: ctx.nshards]
    if ctx.tier == "quick":
        mine = [mine[ctx.rng.randrange(len(mine))]] if mine else []
    for pt in mine:
        A.run_stress(ctx, PROPERTY, "token", ctx.rng, delay_at=pt)
