"""C05 – a task configuration is executed at most once per successful result (Engine B part)"""
from xvgen.plans import PlanProfile

from . import enga_common as A
from . import engb_common as E

PROPERTY = "C05"
LEVEL = "exploration"
RULE = (
    "generated submission histories: duplicates of already submitted configurations at any later position, a previous run of the same experiment in the same workspace (completed, or aborted with job processes still alive and re-attached through their pid files), x seeded schedules; monitors: identity of the object returned by submit, size of the scheduler registry, launch log per job vs. success markers and live processes; non-trivial = plan has a duplicate or a previous run; distinct = distinct (plan, decision trace)"
)
ASSUMPTIONS = [
    "job processes are simulated (launch = SimProcessBuilder.start, exit = the driver selecting the process's waiter); the task runner itself is covered by C10",
    "other processes sharing a token directory are modelled by a driver-serialised foreign agent (a second real CounterToken object): its sections run atomically, as they do under the inter-process lock",
    "asyncio's own FIFO order inside the loop is never perturbed; helper-thread completions, cross-thread posts, process exits and filesystem notifications are delivered in seeded orders",
    "the multi-process part of C05 (two schedulers racing on one job, task-side lock) is exercised by the real-process stress of this check (Engine A part)",
]
SHARDS = E.SHARDS
TIMEOUT = E.TIMEOUT
MINIMUMS = {"quick": {"enga_runs": 10, "second_launch_cases": 10, "second_launch_slow_end": 3, "generate_between_cases": 10, "feature:cleaned": 40, "distinct_plan_trace": 2500, "launch_events": 5000, "feature:dup": 200, "feature:dup-after-resubmit": 40, "feature:multirun:normal": 60, "feature:multirun:exception": 60}, "thorough": {"distinct_plan_trace": 80000, "launch_events": 150000, "feature:dup": 6000, "feature:multirun:normal": 2000, "feature:multirun:exception": 2000}}
PROFILES = [PlanProfile(p_dup=0.6), PlanProfile(p_dup=0.4, multi_run=0.8, p_abort=0.5), PlanProfile(p_dup=0.3, multi_run=0.8, tokens=1), PlanProfile(multi_run=1.0, p_abort=0.7, p_fail=0.15), PlanProfile(multi_run=1.0, p_abort=0.2, p_clean=0.9, p_edge=0.6), PlanProfile(p_fail=0.5, p_resubmit=1.0, p_dup=0.6, max_jobs=4)]
_engb_worker = E.make_worker(PROPERTY, PROFILES, {"quick": 1152, "thorough": 38400}, {"quick": 5, "thorough": 5}, nontrivial=lambda plan: len(plan["runs"]) > 1 or any(a[0] == "dup" for r in plan["runs"] for a in r["actions"]))
replay = E.make_replay(PROPERTY)


NREAL = {"quick": 1, "thorough": 8}  # Engine-A stress runs per shard


def worker(ctx):
    """Engine B part (controlled schedules) followed by the Engine A part (real scheduler processes)."""
    _engb_worker(ctx)
    for _ in range(NREAL[ctx.tier]):
        A.run_stress(ctx, PROPERTY, "same-jobs", ctx.rng)
        A.run_second_launch(ctx, ctx.rng)
        A.run_generate_between(ctx, ctx.rng)
