"""C03 – configurations with different signatures never share an identifier.

Domain (from the statement): text without control characters; dicts nested at most two levels.

Monitors on the same executions:
  M1 stream tap + unique decoding: the byte stream each HashComputer feeds to sha256 is recorded (tap attached
     from the harness), compared chunk-for-chunk with the reference encoder, and decoded back by a type-directed
     decoder that enumerates all parses: exactly one parse, equal to the harness's canonical signature.
  M2 near pairs: one small *relevant* edit must change the identifier of the edited node and of the root.
  M3 global bucket: all (identifier -> canonical signature) pairs of the run; two signatures in one bucket = collision.
"""
import copy
import json
import random

from xvgen import build, idlib, recipes, xpctx
from xvgen.schema import ENUMS, SCHEMA, F
from xvgen.tap import StreamTap, digest_of
from xvref import decode

PROPERTY = "C03"
LEVEL = "exploration"
RULE = (
    "seeded random graphs inside the stated domain (no control characters, dict depth <= 2); per graph the tapped byte "
    "stream of every hasher is decoded (all parses) and one relevant near-pair edit is applied {swap two elements, move an "
    "element between neighbouring containers, rename a key, move a value to a sibling parameter, enum member, constant, "
    "producing task, pre/init tasks added/removed/reordered, split/merge adjacent strings, class}; non-trivial = graph has "
    ">= 2 nodes or a container; distinct = distinct recipes"
)
ASSUMPTIONS = [
    "sha256 is collision- and structure-free: nested digests are opaque atoms for the decoder",
    "injectivity is shown on the generated graphs only",
    "the two collision families outside the domain (control characters, 3-level dicts) are not generated",
]
SHARDS = {"quick": 16, "thorough": 16}
MINIMUMS = {
    "quick": {"distinct_nontrivial": 1500, "streams_decoded": 20000, "streams_vs_reference": 20000, "near_pairs": 3000, "bucket_entries": 8000},
    "thorough": {"distinct_nontrivial": 60000, "streams_decoded": 800000, "streams_vs_reference": 800000, "near_pairs": 120000, "bucket_entries": 300000},
}
N = {"quick": 2400, "thorough": 96000}
TIMEOUT = {"quick": 2400, "thorough": 14400}

TAP = StreamTap()


def new_steps(recipe):
    return [s for s in recipe["steps"] if s[0] == "new"]


# ---------------------------------------------------------------- relevant near-pair edits
def kw(step, name, default=None):
    return next((v for k, v in step[3] if k == name), default)


def setkw(step, name, v):
    step[3] = [[k, x] for k, x in step[3] if k != name] + [[name, v]]


def not_meta(recipe, nid):
    return not any(s[0] == "meta" and s[1] == nid and s[2] for s in recipe["steps"])


def hashed_sites(recipe, sh):
    """new-steps of nodes that are not flagged meta (an edit inside a meta node must change that node only)."""
    return [s for s in new_steps(recipe) if not_meta(recipe, s[1])]


def n_swap(recipe, sh, rng):
    """Swap two distinct elements of a list."""
    c = []
    for s in hashed_sites(recipe, sh):
        for i, (name, v) in enumerate(s[3]):
            p = SCHEMA[s[2]]["params"][name]
            if not p.ignored and isinstance(v, list) and len(v) >= 2:
                c.append((s[1], name))
    if not c:
        return None
    nid, name = rng.choice(c)
    r = copy.deepcopy(recipe)
    for s in new_steps(r):
        if s[1] == nid:
            v = kw(s, name)
            i, j = rng.sample(range(len(v)), 2)
            if sig_equal(sh, v[i], v[j]):
                return None
            v[i], v[j] = v[j], v[i]
    return r, nid


def sig_equal(sh, a, b):
    """Conservative: two values are 'the same' if their JSON is equal or they are references (which may be equal configs)."""
    if a == b:
        return True
    if isinstance(a, dict) and isinstance(b, dict) and ("$r" in a or "$o" in a) and ("$r" in b or "$o" in b):
        return True  # different nodes can still carry equal signatures: not a guaranteed change
    return False


def n_rename_key(recipe, sh, rng):
    c = []
    for s in hashed_sites(recipe, sh):
        for name, v in s[3]:
            p = SCHEMA[s[2]]["params"][name]
            if not p.ignored and isinstance(v, dict) and "$d" in v and v["$d"]:
                c.append((s[1], name))
    if not c:
        return None
    nid, name = rng.choice(c)
    r = copy.deepcopy(recipe)
    for s in new_steps(r):
        if s[1] == nid:
            d = kw(s, name)["$d"]
            k = rng.choice(list(d))
            nk = rng.choice([x for x in [k + "x", "renamed", "Z" + k, k[:-1] or "q"] if x not in d])
            val = d.pop(k)
            # a meta-flagged value is not part of the signature whatever its key
            if isinstance(val, dict) and "$r" in val and not not_meta(recipe, val["$r"]):
                return None
            d[nk] = val
    return r, nid


def n_move_between(recipe, sh, rng):
    """Move an element between neighbouring containers: dl (dict of lists), ld (list of dicts), grid, dd."""
    c = []
    for s in hashed_sites(recipe, sh):
        if s[2] != "Node":
            continue
        for name in ("dl", "ld", "grid", "dd"):
            v = kw(s, name)
            if v is None:
                continue
            inner = list(v["$d"].values()) if isinstance(v, dict) else v
            if len(inner) >= 2 and any(x if not isinstance(x, dict) else x["$d"] for x in inner):
                c.append((s[1], name))
    if not c:
        return None
    nid, name = rng.choice(c)
    r = copy.deepcopy(recipe)
    for s in new_steps(r):
        if s[1] == nid:
            v = kw(s, name)
            inner = list(v["$d"].values()) if isinstance(v, dict) else v
            src = rng.choice([x for x in inner if (x if not isinstance(x, dict) else x["$d"])])
            dst = rng.choice([x for x in inner if x is not src])
            if isinstance(src, list):
                el = src.pop(rng.randrange(len(src)))
                if isinstance(el, dict) and "$r" in el and not not_meta(recipe, el["$r"]):
                    return None
                dst.insert(rng.randint(0, len(dst)), el)
            else:
                k = rng.choice(list(src["$d"]))
                if k in dst["$d"]:
                    return None
                el = src["$d"].pop(k)
                if isinstance(el, dict) and "$r" in el and not not_meta(recipe, el["$r"]):
                    return None
                dst["$d"][k] = el
    return r, nid


SIBLINGS = {"Leaf": [("i", "oi"), ("s", "os")], "LeafB": [("i", "oi"), ("s", "os"), ("i", "x")], "Rec": [("a", "b")], "Node": [("ints", "dlist"), ("counts", "ddict"), ("child", "opt")]}


def n_sibling(recipe, sh, rng):
    """Move / exchange values between sibling parameters of the same type."""
    c = [(s[1], pair) for s in hashed_sites(recipe, sh) for pair in SIBLINGS.get(s[2], [])]
    if not c:
        return None
    nid, (a, b) = rng.choice(c)
    r = copy.deepcopy(recipe)
    n = sh.nodes[nid]
    va, vb = n.values.get(a), n.values.get(b)
    if va == vb or sig_equal(sh, va, vb):
        return None
    for s in new_steps(r):
        if s[1] == nid:
            ra, rb = kw(s, a, "absent"), kw(s, b, "absent")
            pa, pb = SCHEMA[s[2]]["params"][a], SCHEMA[s[2]]["params"][b]
            # exchange the shadow values (after defaults), refusing None for a required parameter
            if (vb is None and pa.required) or (va is None and pb.required):
                return None
            for x in (va, vb):
                if isinstance(x, dict) and "$r" in x and x["$r"] not in {t[1] for t in new_steps(recipe)}:
                    return None  # implicit default clone: not addressable in the recipe
            setkw(s, a, vb)
            setkw(s, b, va)
    return r, nid


def n_enum(recipe, sh, rng):
    c = [s[1] for s in hashed_sites(recipe, sh) if s[2] in ("Leaf", "LeafB")]
    if not c:
        return None
    nid = rng.choice(c)
    r = copy.deepcopy(recipe)
    for s in new_steps(r):
        if s[1] == nid:
            which = rng.choice(["e", "e2"])
            old = sh.nodes[nid].values.get(which)
            enum = "Color" if which == "e" else "Shade"
            new = {"$e": [enum, rng.choice(ENUMS[enum])]}
            if new == old:
                return None
            setkw(s, which, new)
    return r, nid


def n_scalar(recipe, sh, rng):
    """Split / merge adjacent strings across sibling parameters, or nudge an int / float."""
    c = [s[1] for s in hashed_sites(recipe, sh) if s[2] in ("Leaf", "LeafB")]
    if not c:
        return None
    nid = rng.choice(c)
    n = sh.nodes[nid]
    r = copy.deepcopy(recipe)
    for s in new_steps(r):
        if s[1] == nid:
            k = rng.choice(["split", "int", "float"])
            if k == "split":
                a, b = n.values.get("os") or "", n.values.get("s") or ""
                # 'os' sorts before 's': their texts are adjacent up to the tags in between
                joined = a + b
                if len(joined) < 1:
                    return None
                cut = rng.randint(0, len(joined))
                na, nb = joined[:cut], joined[cut:]
                if (na, nb) == (a, b) or n.values.get("os") is None and na == "":
                    return None
                setkw(s, "os", na)
                setkw(s, "s", nb)
            elif k == "int":
                setkw(s, "i", int(n.values["i"]) + rng.choice([1, -1, 256, 2**32]) if abs(int(n.values["i"])) < 2**62 else 0)
            else:
                old = n.values.get("f")
                new = F(rng.choice([0.5, 2.5, -1.5, 1e-9]))
                if new == old:
                    return None
                setkw(s, "f", new)
    return r, nid


def n_pre(recipe, sh, rng):
    """Add a pre-task to the root (full identifier must change)."""
    root = recipe["root"]
    r = copy.deepcopy(recipe)
    for i, s in enumerate(r["steps"]):
        if s[0] == "new" and s[1] == root:
            pid = f"np{len(r['steps'])}"
            r["steps"][i:i] = [["new", pid, "Pre", [["k", rng.randint(1000, 2000)]]]]
            r["steps"].insert(i + 2, ["pre", root, [pid]])
            return r, root
    return None


def n_init(recipe, sh, rng):
    """Reorder, add or remove init tasks of a submitted task (the sequence of init tasks is part of the identity)."""
    subs = [s for s in recipe["steps"] if s[0] == "submit"]
    if not subs:
        return None
    s0 = rng.choice(subs)
    r = copy.deepcopy(recipe)
    for i, s in enumerate(r["steps"]):
        if s[0] == "submit" and s[1] == s0[1]:
            inits = s[2]
            if len(inits) >= 2 and rng.random() < 0.6:
                inits.reverse()
            elif inits and rng.random() < 0.5:
                inits.pop(rng.randrange(len(inits)))
            else:
                iid = f"ni{len(r['steps'])}"
                r["steps"].insert(i, ["new", iid, "Init", [["k", rng.randint(3000, 4000)]]])
                inits.insert(rng.randint(0, len(inits)), iid)
            return r, s0[1]
    return None


def n_pre_as_init(recipe, sh, rng):
    """The pre-tasks of a submitted task become its init tasks instead (same lightweight task objects): the set of
    pre-tasks and the sequence of init tasks are separate parts of the identity."""
    subs = [s for s in recipe["steps"] if s[0] == "submit" and not s[2]]
    cands = []
    for s in subs:
        pres = [p for p in recipe["steps"] if p[0] == "pre" and p[1] == s[1]]
        if len(pres) == 1 and len(set(pres[0][2])) == len(pres[0][2]):
            cands.append((s[1], pres[0][2]))
    if not cands:
        return None
    tid, pids = rng.choice(cands)
    r = copy.deepcopy(recipe)
    r["steps"] = [st for st in r["steps"] if not (st[0] == "pre" and st[1] == tid)]
    for st in r["steps"]:
        if st[0] == "submit" and st[1] == tid:
            st[2] = list(pids)
    return r, tid


def n_regroup(recipe, sh, rng):
    """Regroup a nested list: merge two neighbouring inner lists or split one ([[1],[2]] <-> [[1,2]])."""
    c = []
    for s in hashed_sites(recipe, sh):
        if s[2] == "Node":
            v = kw(s, "grid")
            if v and (len(v) >= 2 or any(len(x) >= 2 for x in v)):
                c.append(s[1])
    if not c:
        return None
    nid = rng.choice(c)
    r = copy.deepcopy(recipe)
    for s in new_steps(r):
        if s[1] == nid:
            g = kw(s, "grid")
            if len(g) >= 2 and rng.random() < 0.5:
                i = rng.randrange(len(g) - 1)
                g[i : i + 2] = [g[i] + g[i + 1]]
            else:
                cands = [i for i, x in enumerate(g) if len(x) >= 2]
                if not cands:
                    i = rng.randrange(len(g) - 1)
                    g[i : i + 2] = [g[i] + g[i + 1]]
                else:
                    i = rng.choice(cands)
                    k = rng.randint(1, len(g[i]) - 1)
                    g[i : i + 1] = [g[i][:k], g[i][k:]]
    return r, nid


NEAR = {"regroup": n_regroup, "init-tasks": n_init, "swap": n_swap, "rename-key": n_rename_key, "move-between": n_move_between, "sibling": n_sibling, "enum": n_enum, "scalar": n_scalar, "add-pre": n_pre, "pre-as-init": n_pre_as_init}


# ---------------------------------------------------------------- monitors
def tap_check(ctx, recipe, b, sh, ref, real2nid):
    """M1 on every hasher instance recorded by the tap since the last clear()."""
    for cid, path_ids, chunks, digest in TAP.records:
        nid = real2nid.get(cid)
        if nid is None or nid not in sh.nodes:
            continue
        path = tuple(real2nid.get(p) for p in path_ids[:-1])
        if any(p is None for p in path):
            continue
        ctx.count("streams_vs_reference")
        want = ref.stream(nid, path)
        if b"".join(chunks) != b"".join(want):
            ctx.violation(
                "stream-differs-from-reference",
                f"node {nid} ({sh.nodes[nid].cls}) via {path}: hashed {b''.join(chunks)[:120]!r} but the documented encoding gives {b''.join(want)[:120]!r}",
                {"recipe": recipe, "node": nid},
            )
            return False
        if digest_of(chunks) != digest:
            ctx.violation("tap-incomplete", f"node {nid}: digest is not sha256 of the tapped chunks", {"recipe": recipe, "node": nid})
            return False
        dec = decode.Decoder(decode.items_of(chunks))
        parses = dec.node(sh.nodes[nid].cls)
        ctx.count("streams_decoded")
        expected = decode.shallow_signature(ref, nid, path)
        if len(parses) != 1:
            ctx.violation(
                "ambiguous-stream" if parses else "undecodable-stream",
                f"node {nid} ({sh.nodes[nid].cls}): {len(parses)} parses of the hashed stream: {json.dumps(parses[:2])[:600]}",
                {"recipe": recipe, "node": nid},
            )
            return False
        if parses[0] != expected:
            ctx.violation(
                "stream-decodes-to-other-signature",
                f"node {nid}: stream decodes to {json.dumps(parses[0])[:400]} but the signature is {json.dumps(expected)[:400]}",
                {"recipe": recipe, "node": nid},
            )
            return False
    return True


def explore(ctx, recipe, rng, bucket):
    sh, ref = idlib.shadow_of(recipe)
    root = recipe["root"]
    TAP.clear()
    try:
        b = build.Builder().run(recipe)
        ids = build.all_ids(b)
    except RecursionError:
        return
    real2nid = {id(o): nid for nid, o in b.real.items()}
    tap_check(ctx, recipe, b, sh, ref, real2nid)
    TAP.clear()

    # M3 global bucket, raw and full identifiers
    for nid, (raw, full) in ids.items():
        if nid not in sh.nodes:
            continue
        for kind, ident, sig in (("raw", raw, ref.sigtree(nid)), ("full", full, ref.fullsig(nid))):
            key = kind + ident
            s = json.dumps(sig, sort_keys=True)
            ctx.count("bucket_entries")
            if key in bucket:
                if bucket[key][0] != s:
                    ctx.violation(
                        "identifier-collision",
                        f"two different signatures share {kind} identifier {ident[:16]}: {s[:300]} and {bucket[key][0][:300]}",
                        {"recipe": recipe, "node": nid, "other": bucket[key][1]},
                    )
            else:
                bucket[key] = (s, {"steps": recipe["steps"], "node": nid} if len(bucket) < 2000 else None)

    # M2 near pairs
    for name, fn in NEAR.items():
        try:
            res = fn(recipe, sh, rng)
        except (KeyError, IndexError, ValueError):
            res = None
        if res is None:
            continue
        r2, edited = res
        sh2, ref2 = idlib.shadow_of(r2)
        if ref.fullsig(edited) == ref2.fullsig(edited) if edited in sh2.nodes else True:
            ctx.count("near_same_signature")  # the edit did not change the signature after all (e.g. equal elements)
            continue
        try:
            b2 = build.Builder().run(r2)
            ids2 = build.all_ids(b2, [edited])
        except RecursionError:
            continue
        except Exception as e:
            ctx.count("near_rejected")
            continue
        ctx.count("near_pairs")
        ctx.count("near:" + name)
        if ids2[edited][1] == ids[edited][1]:
            ctx.violation(
                "near-pair-collision:" + name,
                f"node {edited} keeps identifier {ids[edited][1][:16]} after the relevant edit '{name}'",
                {"recipe": recipe, "edited": r2, "node": edited, "edit": name},
            )
        ctx.case({"r": recipe["steps"], "near": name}, nontrivial=True, max_samples=0)

    # class / constant variants: same values, other class or other constant -> other identifier
    for s in recipe["steps"]:
        if s[0] == "new" and s[1] == root and s[2] == "Leaf" and not_meta(recipe, root):
            b3 = build.Builder("xvmodels.zoo3").run(recipe)
            ctx.count("near_pairs")
            ctx.count("near:constant")
            if build.all_ids(b3, [root])[root][1] == ids[root][1]:
                ctx.violation("near-pair-collision:constant", "changing a constant keeps the identifier", {"recipe": recipe, "node": root, "edit": "constant"})
    nt = len(sh.nodes) >= 2 or any(isinstance(v, (list, dict)) for n in sh.nodes.values() for v in n.values.values())
    ctx.case(recipe["steps"], nontrivial=nt, sample={"root": root, "steps": recipe["steps"][:8]}, max_samples=2)


def worker(ctx):
    xpctx.quiet()
    TAP.install()
    n = max(1, N[ctx.tier] // ctx.nshards)
    bucket = {}
    with xpctx.stderr_to_devnull(), xpctx.dry_experiment(ctx.scratch / "ws"):
        containers = recipes.Profile(root_classes=["Node", "Node", "Leaf", "LeafB", "Rec", "TaskT", "TaskO", "Holder"], p_optional=0.7)
        for i in range(n):
            rec = recipes.generate(ctx.rng, containers if i % 2 else None)
            explore(ctx, rec, ctx.rng, bucket)


def replay(ctx, w):
    xpctx.quiet()
    TAP.install()
    with xpctx.stderr_to_devnull(), xpctx.dry_experiment(ctx.scratch / "ws"):
        rec = w["recipe"]
        explore(ctx, {"steps": rec["steps"], "root": rec["root"], "kind": rec.get("kind", "config")}, random.Random(ctx.seed), {})
