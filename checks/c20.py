"""C20 – deprecating a class keeps identifiers and makes old results reachable.

Phase 1 (fresh process, nothing deprecated): real job directories are recorded under the *former* identifiers, and the
identifier the replacement classes give is computed independently of any deprecation.
Phase 2 (fresh process, old classes deprecated): a graph with deprecated classes at root / nested / in containers / in a
task output has the identifiers of the same graph with the replacement classes.
Phase 3 (fresh process, deprecated): the real repair command (deprecated list --fix [--cleanup]) runs on workspaces in
several prior states; every directory recorded under a former identifier must be reachable under the new one with its
payload, no recorded file may disappear, a second repair changes nothing, and a resubmission finds the success marker."""
import json
import os
import random
import shutil
import subprocess
from pathlib import Path

from xvcore import PYTHON, REPO, VERIF
from xvgen import xpctx

PROPERTY = "C20"
LEVEL = "exploration"
RULE = (
    "seeded job specifications over deprecated/replacement pairs (configuration class nested directly, in list, in dict, inside a wrapper "
    "configuration; producing task of an embedded output; the task class itself, moved or renamed; with/without init tasks) x prior workspace "
    "states {untouched, already linked, dangling link, partially repaired, cleanup after link, cleanup} ; non-trivial = the specification "
    "contains a deprecated class; distinct = distinct specifications / (workspace, state)"
)
ASSUMPTIONS = [
    "every phase runs in a fresh interpreter (deprecation is irreversible in-process); the expected new identifier is computed in phase 1 from the replacement classes, without deprecate()",
    "job directories are produced by generate-only submissions (real params.json and script) and given a success marker and payload files by the harness",
]
SHARDS = {"quick": 16, "thorough": 16}
MINIMUMS = {
    "quick": {"identity_graphs": 600, "identity_with_deprecated": 400, "workspaces": 40, "jobs_repaired": 150, "state:untouched": 5, "state:cleanup": 5, "state:dangling-link": 5, "state:partially-repaired": 5, "state:already-linked": 5, "state:cleanup-after-link": 5},
    "thorough": {"identity_graphs": 20000, "identity_with_deprecated": 14000, "workspaces": 1500, "jobs_repaired": 4500},
}
N = {"quick": (800, 48), "thorough": (24000, 1600)}
TIMEOUT = {"quick": 2400, "thorough": 14400}
STATES = ["untouched", "cleanup", "dangling-link", "partially-repaired", "already-linked", "cleanup-after-link"]


def gen_cfg(rng, p_old=0.6):
    c = {"cls": "OldCfg" if rng.random() < p_old else "NewCfg", "v": rng.randint(0, 50)}
    if rng.random() < 0.3:
        c["w"] = rng.choice(["w", "x", "yz"])
    return c


def gen_spec(rng):
    spec = {"task": rng.choice(["NewTask", "NewTask", "OldTaskMoved", "OldTaskRenamed"]), "x": rng.randint(0, 10**6)}
    if rng.random() < 0.5:
        spec["cfg"] = gen_cfg(rng)
    if rng.random() < 0.35:
        spec["cfgs"] = [gen_cfg(rng) for _ in range(rng.randint(1, 3))]
    if rng.random() < 0.35:
        spec["cmap"] = {k: gen_cfg(rng) for k in rng.sample(["a", "b", "k1"], rng.randint(1, 2))}
    if rng.random() < 0.35:
        spec["wrap"] = {"inner": gen_cfg(rng), "many": [gen_cfg(rng) for _ in range(rng.randint(0, 2))], "named": {k: gen_cfg(rng) for k in rng.sample(["a", "z"], rng.randint(0, 2))}}
    if rng.random() < 0.3:
        spec["up"] = {"producer": rng.choice(["OldProducer", "NewProducer"]), "x": rng.randint(0, 99)}
    if rng.random() < 0.3:
        spec["init"] = [rng.randint(0, 9) for _ in range(rng.randint(1, 2))]
    return spec


def has_deprecated(spec):
    return "Old" in json.dumps(spec)


def child(ctx, args, deprecate, timeout=300):
    env = {"PATH": os.environ.get("PATH", ""), "HOME": os.environ["HOME"], "PYTHONDONTWRITEBYTECODE": "1", "PYTHONPATH": f"{REPO}/src:{VERIF}/lib:{VERIF}", "XV_SCRATCH": str(ctx.scratch), "XV_JOB_PYTHONPATH": f"{REPO}/src:{VERIF}/lib", "XPM_WORKDIR": str(ctx.scratch / "xpmlocal"), "PYTHONHASHSEED": "0"}
    if deprecate:
        env["XV_DEPRECATE"] = "1"
    try:
        pr = subprocess.run([PYTHON, "-m", "checks.c20_child"] + [str(a) for a in args], env=env, capture_output=True, text=True, timeout=timeout, cwd=str(VERIF))
    except subprocess.TimeoutExpired:
        return None
    return pr


def part_identity(ctx, n):
    rng = ctx.rng
    specs = [gen_spec(rng) for _ in range(n)]
    sp = ctx.scratch / "idspecs.json"
    out = ctx.scratch / "idout.json"
    sp.write_text(json.dumps(specs))
    pr = child(ctx, ["identity", sp, out], deprecate=True)
    if pr is None or pr.returncode != 0 or not out.is_file():
        ctx.inconclusive(f"identity child failed: {pr.stderr[-400:] if pr else 'timeout'}")
        return
    for r in json.loads(out.read_text()):
        ctx.count("identity_graphs")
        dep = has_deprecated(r["spec"])
        if dep:
            ctx.count("identity_with_deprecated")
        for k, v in r["deprecated"].items():
            if r["replacement"].get(k) != v:
                ctx.violation("deprecated-class-changes-identifier:" + ("root" if k == "root" else "nested"), f"position {k}: {v[:12]} with the deprecated class, {r['replacement'].get(k, '')[:12]} with its replacement", {"spec": r["spec"], "position": k})
                break
        if r["rel_deprecated"] != r["rel_replacement"]:
            ctx.violation("deprecated-class-changes-job-directory", f"{r['rel_deprecated']} vs {r['rel_replacement']}", {"spec": r["spec"]})
        ctx.case({"id": r["spec"]}, nontrivial=dep, sample={"spec": r["spec"], "job": r["rel_replacement"]}, max_samples=2)


def part_repair(ctx, n):
    rng = ctx.rng
    for i in range(n):
        wd = ctx.scratch / f"dep{i}"
        if wd.exists():
            shutil.rmtree(wd)
        wd.mkdir()
        specs = [gen_spec(rng) for _ in range(rng.randint(2, 5))]
        # distinct x values keep the job directories apart
        for k, s in enumerate(specs):
            s["x"] = s["x"] * 10 + k
        (wd / "specs.json").write_text(json.dumps(specs))
        state = STATES[(i + ctx.shard) % len(STATES)]
        cleanup = 1 if state == "cleanup" else 0
        try:
            pr = child(ctx, ["phase1", wd / "ws", wd / "specs.json", wd / "manifest.json"], deprecate=False)
            if pr is None or pr.returncode != 0:
                ctx.inconclusive(f"phase1 child failed: {pr.stderr[-400:] if pr else 'timeout'}")
                continue
            man = json.loads((wd / "manifest.json").read_text())
            # phase-1 sanity (negative control): a renamed/moved/nested old class really had another identifier before deprecation
            for m in man:
                if has_deprecated(m["spec"]) and m["old_rel"] == m["new_rel"]:
                    ctx.count("control_same_identifier_before_deprecation")
            pr = child(ctx, ["phase3", wd / "ws", wd / "manifest.json", state, cleanup, wd / "report.json"], deprecate=True)
            if pr is None or pr.returncode != 0 or not (wd / "report.json").is_file():
                ctx.inconclusive(f"phase3 child failed: {pr.stderr[-400:] if pr else 'timeout'}")
                continue
            rep = json.loads((wd / "report.json").read_text())
            ctx.count("workspaces")
            ctx.count("state:" + state)
            w = {"specs": specs, "state": state}
            for e in rep["errors"]:
                ctx.violation("repair-command-raises", e, w)
            if not rep["idempotent"]:
                ctx.violation("repair-not-idempotent", f"state {state}: a second repair changed the jobs tree: {rep.get('idempotence_diff')}", w)
            for step, bad in rep.get("unreachable_after", []):
                ctx.count("reachability_inspections")
                if bad:
                    ctx.violation("old-result-not-reachable:after-" + step.split(" (")[0].replace(" ", "-"), f"state {state}: after {step}, not reachable under the new identifier: {bad[:3]}", w)
            for j in rep["jobs"]:
                ctx.count("jobs_repaired")
                wj = dict(w, job=j)
                if j["rel_now"] != j["new_rel"]:
                    ctx.violation("deprecated-class-changes-job-directory", f"after deprecation the task resolves to {j['rel_now']}, its replacement classes give {j['new_rel']}", wj)
                if not j["data_present_somewhere"] or j["missing_files"]:
                    ctx.violation("repair-loses-job-data", f"state {state}: job recorded under {j['old_rel']}: payload present={j['data_present_somewhere']}, missing files {j['missing_files']}", wj)
                if not j["reachable"]:
                    ctx.violation("old-result-not-reachable" + (":with-init-tasks" if j["init"] else ""), f"state {state}: job recorded under {j['old_rel']} is not reachable under {j['new_rel']}", wj)
                elif not j["done_found_on_resubmit"]:
                    renamed = j["old_rel"].split("/")[0].rsplit(".", 1)[-1] != j["new_rel"].split("/")[0].rsplit(".", 1)[-1]
                    ctx.violation(
                        "resubmit-reruns-renamed-task" if renamed else "resubmit-does-not-find-result",
                        f"state {state}: the directory is reachable under {j['new_rel']} but a resubmission looks for {j['donepath']}, which does not exist: the job would run again",
                        wj,
                    )
            ctx.case({"ws": specs, "state": state}, nontrivial=any(has_deprecated(s) for s in specs), sample={"state": state, "jobs": [(j["old_rel"][:40], j["reachable"], j["done_found_on_resubmit"]) for j in rep["jobs"]]}, max_samples=2)
        finally:
            shutil.rmtree(wd, ignore_errors=True)


def worker(ctx):
    xpctx.quiet()
    n1, n2 = (max(1, x // ctx.nshards) for x in N[ctx.tier])
    part_identity(ctx, n1)
    part_repair(ctx, n2)


def replay(ctx, w):
    print("replay: the witness holds the job specifications and the prior state; re-run the quick tier with the recorded seed")
