"""C15 – parameters only ever hold values of their declared type; submit fails fast.

Part 1 (types): for generated type expressions t (scalars, enum, path, List, Dict[str, .], top-level Optional, configuration
classes with subclassing, task classes) a class with one parameter of type t is created inside xvmodels and candidate values
(conforming, or off by one constructor at a random depth) are given at construction, assigned afterwards, or declared as the
parameter's default and left alone (scalars, enums, paths and containers of them); a reference validator written from the
documentation decides: a conforming value must be accepted and read back equal (after the documented coercions);
whenever the assignment does not raise, the stored value must be of type t.

Part 2 (submit): a valid task graph with exactly one required value removed at a random node / nesting kind must be
rejected by submit, in dry-run and in normal mode (controlled scheduler), before any job is registered."""
import copy
import math
import random
import sys
import types
from enum import Enum
from pathlib import Path
from typing import Dict, List, Optional

from xvgen import build, idlib, recipes, xpctx
from xvgen.schema import SCHEMA

PROPERTY = "C15"
LEVEL = "exploration"
RULE = (
    "part 1: seeded type expressions (depth <= 4) x candidate values {conforming, conforming with a documented coercion, off by "
    "one constructor at a random depth}; part 2: seeded task graphs with one required value removed at a node sealed by the root's "
    "submission (direct, in list, in dict, list-in-dict, pre-task, init task, meta position), submitted in dry-run and normal mode; "
    "non-trivial = type expression of depth >= 2 or a removal below the root; distinct = distinct (type, value) / (recipe, removal)"
)
ASSUMPTIONS = [
    "bool parameters: anything coerces to bool in the code and the stored value is a bool, so a non-bool candidate may be either rejected or stored as a bool; likewise a bool given to an int or float parameter (bool is an int in Python)",
    "for every other type the documented coercions (integral float to int, int to float, string to path) are the only ones: a non-conforming value has to raise",
    "unions other than Optional are outside the statement and not generated",
    "any exception raised by submit counts as a rejection; registration is observed on scheduler.jobs, unfinishedJobs and the experiment's job link",
]
SHARDS = {"quick": 16, "thorough": 16}
MINIMUMS = {
    "quick": {"distinct_nontrivial": 10000, "values_as_declared_default": 2000, "assignments": 30000, "conforming_accepted": 10000, "ill_typed_rejected": 8000, "removal_cases": 2000, "removal:list": 100, "removal:dict": 100, "removal:direct": 200, "removal:pre-task": 50, "removal:init-task": 100, "removal_normal_mode": 500, "removal_second_attempt": 1500},
    "thorough": {"distinct_nontrivial": 120000, "assignments": 300000, "conforming_accepted": 90000, "ill_typed_rejected": 70000, "removal_cases": 20000, "removal:list": 1500, "removal:dict": 1500, "removal:direct": 3000, "removal_normal_mode": 5000, "removal_second_attempt": 15000},
}
N = {"quick": (48000, 4000), "thorough": (1200000, 100000)}
TIMEOUT = {"quick": 2400, "thorough": 14400}

_DYN = None
_CLASSES = {}
_DEFAULTS = [0]


def dyn_module():
    global _DYN
    if _DYN is None:
        _DYN = types.ModuleType("xvmodels.dyn")
        _DYN.__package__ = "xvmodels"
        sys.modules["xvmodels.dyn"] = _DYN
    return _DYN


def to_typing(t):
    from xvmodels import zoo

    if isinstance(t, tuple):
        if t[0] == "opt":
            return Optional[to_typing(t[1])]
        if t[0] == "list":
            return List[to_typing(t[1])]
        if t[0] == "dict":
            return Dict[str, to_typing(t[1])]
        if t[0] == "enum":
            return getattr(zoo, t[1])
        if t[0] == "cfg":
            return getattr(zoo, t[1])
    return {"int": int, "float": float, "str": str, "bool": bool, "path": Path}[t]


def class_for(t):
    from experimaestro import Config, Param

    key = repr(t)
    if key not in _CLASSES:
        mod = dyn_module()
        name = f"T{len(_CLASSES)}"
        cls = type(name, (Config,), {"__module__": "xvmodels.dyn", "__qualname__": name, "__xpmid__": f"xvmodels.dyn.{name.lower()}", "__annotations__": {"p": Param[to_typing(t)]}})
        setattr(mod, name, cls)
        _CLASSES[key] = cls
    return _CLASSES[key]


SCALARS = ["int", "float", "str", "bool", "path", ("enum", "Color")]
CFGS = ["Leaf", "LeafB", "Other", "Artifact"]


def gen_type(rng, depth=0, top=True):
    r = rng.random()
    if depth >= 3 or r < 0.35:
        t = rng.choice(SCALARS + [("cfg", rng.choice(CFGS)), ("cfg", "TaskT")])
    elif r < 0.7:
        t = ("list", gen_type(rng, depth + 1, False))
    else:
        t = ("dict", gen_type(rng, depth + 1, False))
    if top and rng.random() < 0.25:
        t = ("opt", t)
    return t


def depth_of(t):
    if isinstance(t, tuple) and t[0] in ("list", "dict", "opt"):
        return 1 + depth_of(t[1])
    return 1


class World:
    """Real objects the candidates are drawn from."""

    def __init__(self, rng):
        from xvmodels import zoo

        self.zoo = zoo
        self.cfg = {
            "Leaf": [zoo.Leaf(i=1), zoo.LeafB(i=2, x=3)],
            "LeafB": [zoo.LeafB(i=4)],
            "Other": [zoo.Other(i=5)],
            "Artifact": [zoo.Artifact(v=6)],
        }
        t = zoo.TaskT(x=901)
        t.submit()
        self.submitted = t
        self.unsubmitted = zoo.TaskT(x=902)


def conforming(rng, t, w):
    if isinstance(t, tuple):
        if t[0] == "opt":
            return None if rng.random() < 0.3 else conforming(rng, t[1], w)
        if t[0] == "list":
            return [conforming(rng, t[1], w) for _ in range(rng.choice([0, 1, 2, 3]))]
        if t[0] == "dict":
            return {rng.choice(["a", "b", "c", "k"]) + str(i): conforming(rng, t[1], w) for i in range(rng.choice([0, 1, 2]))}
        if t[0] == "enum":
            return rng.choice(list(getattr(w.zoo, t[1])))
        if t[0] == "cfg":
            if t[1] == "TaskT":
                return w.submitted
            return rng.choice(w.cfg[t[1]])
    if t == "int":
        return rng.choice([0, 1, -3, 2**40, 3.0, -2.0])  # integral floats are documented as accepted
    if t == "float":
        return rng.choice([0.5, -1.25, float("inf"), 3, -7])  # ints are documented as accepted
    if t == "str":
        return rng.choice(["", "abc", "é"])
    if t == "bool":
        return rng.random() < 0.5
    if t == "path":
        return rng.choice([Path("/a/b"), "rel/c", "/x"])  # strings are documented as accepted
    raise ValueError(t)


def wrong(rng, t, w):
    """A value that does not conform to t at the outermost constructor."""
    if isinstance(t, tuple):
        if t[0] == "opt":
            return wrong(rng, t[1], w)
        if t[0] == "list":
            return rng.choice([5, "x", {"a": 1}, (1, 2), {1, 2}, None])
        if t[0] == "dict":
            inner = conforming(rng, t[1], w)
            return rng.choice([[1], "x", 7, None, {1: inner}, {("a",): inner}])
        if t[0] == "enum":
            return rng.choice(["RED", 1, w.zoo.Shade.RED, None])
        if t[0] == "cfg":
            if t[1] == "TaskT":
                return rng.choice([w.unsubmitted, w.cfg["Leaf"][0], 3, None])
            sib = {"Leaf": "Other", "LeafB": "Leaf", "Other": "Leaf", "Artifact": "Leaf"}[t[1]]
            cand = w.cfg[sib][0]
            return rng.choice([cand, 3, "x", None, [w.cfg[t[1]][0]]])
    if t == "int":
        return rng.choice(["1", 1.5, None, [1], float("nan")])
    if t == "float":
        return rng.choice(["1.0", None, [1.0], {}])
    if t == "str":
        return rng.choice([1, 1.5, None, ["a"], Path("/p")])
    if t == "bool":
        return rng.choice(["yes", 0, 2, None, []])
    if t == "path":
        return rng.choice([1, None, ["a"], 2.5])
    raise ValueError(t)


def off_by_one(rng, t, w):
    """Conforming everywhere except at one random position."""
    if isinstance(t, tuple) and t[0] == "opt":
        return off_by_one(rng, t[1], w)
    if isinstance(t, tuple) and t[0] in ("list", "dict") and rng.random() < 0.7:
        v = conforming(rng, t, w)
        if t[0] == "list":
            if not v:
                v = [conforming(rng, t[1], w)]
            i = rng.randrange(len(v))
            v[i] = off_by_one(rng, t[1], w)
            return v
        if not v:
            v = {"k": conforming(rng, t[1], w)}
        k = rng.choice(list(v))
        v[k] = off_by_one(rng, t[1], w)
        return v
    return wrong(rng, t, w)


class Reject(Exception):
    pass


def ref_coerce(t, v, w, top=True):
    """Reference validator: the stored value for a conforming v, Reject otherwise.
    Returns (strict, value): strict=False when the documentation leaves acceptance open (bool)."""
    if isinstance(t, tuple):
        if t[0] == "opt":
            if v is None:
                return True, None
            return ref_coerce(t[1], v, w, top)
        if t[0] == "list":
            if not isinstance(v, list):
                raise Reject()
            out, strict = [], True
            for x in v:
                s, y = ref_coerce(t[1], x, w, False)
                strict &= s
                out.append(y)
            return strict, out
        if t[0] == "dict":
            if not isinstance(v, dict):
                raise Reject()
            out, strict = {}, True
            for k, x in v.items():
                if not isinstance(k, str):
                    raise Reject()
                s, y = ref_coerce(t[1], x, w, False)
                strict &= s
                out[k] = y
            return strict, out
        if t[0] == "enum":
            if isinstance(v, getattr(w.zoo, t[1])):
                return True, v
            raise Reject()
        if t[0] == "cfg":
            from experimaestro import Config

            cls = getattr(w.zoo, t[1])
            if isinstance(v, Config) and isinstance(v, cls):
                if t[1] == "TaskT" and not v.__xpm__.job:
                    raise Reject()
                return True, v
            raise Reject()
    if t == "bool" and not top:
        # inside containers anything (None included) is turned into a bool by the code: exempt, see ASSUMPTIONS
        return (True, v) if isinstance(v, bool) else (False, bool(v))
    if v is None:
        raise Reject()
    if t == "int":
        if isinstance(v, bool):
            return False, v
        if isinstance(v, int):
            return True, v
        if isinstance(v, float) and math.isfinite(v) and v == int(v):
            return True, int(v)
        raise Reject()
    if t == "float":
        if isinstance(v, bool):
            return False, float(v)
        if isinstance(v, float):
            return True, v
        if isinstance(v, int):
            return True, float(v)
        raise Reject()
    if t == "str":
        if isinstance(v, str):
            return True, v
        raise Reject()
    if t == "bool":
        if isinstance(v, bool):
            return True, v
        return False, bool(v)
    if t == "path":
        if isinstance(v, Path):
            return True, v
        if isinstance(v, str):
            return True, Path(v)
        raise Reject()
    raise ValueError(t)


def of_type(t, x, w):
    if isinstance(t, tuple):
        if t[0] == "opt":
            return x is None or of_type(t[1], x, w)
        if t[0] == "list":
            return isinstance(x, list) and all(of_type(t[1], y, w) for y in x)
        if t[0] == "dict":
            return isinstance(x, dict) and all(isinstance(k, str) and of_type(t[1], y, w) for k, y in x.items())
        if t[0] == "enum":
            return isinstance(x, getattr(w.zoo, t[1]))
        if t[0] == "cfg":
            from experimaestro import Config

            return isinstance(x, Config) and isinstance(x, getattr(w.zoo, t[1])) and (t[1] != "TaskT" or bool(x.__xpm__.job))
    if t == "int":
        return isinstance(x, int)
    if t == "float":
        return isinstance(x, float)
    if t == "str":
        return isinstance(x, str)
    if t == "bool":
        return isinstance(x, bool)
    if t == "path":
        return isinstance(x, Path)
    return False


def same(a, b):
    if isinstance(a, list) and isinstance(b, list):
        return len(a) == len(b) and all(same(x, y) for x, y in zip(a, b))
    if isinstance(a, dict) and isinstance(b, dict):
        return set(a) == set(b) and all(same(a[k], b[k]) for k in a)
    from experimaestro import Config

    if isinstance(a, Config) or isinstance(b, Config):
        return a is b
    if type(a) is not type(b):
        return False
    if isinstance(a, float) and math.isnan(a):
        return math.isnan(b)
    return a == b


def show(v):
    return repr(v)[:200]


def part1(ctx, rng, n, w):
    for _ in range(n):
        t = gen_type(rng)
        cls = class_for(t)
        kind = rng.choice(["conforming", "conforming", "off"])
        v = conforming(rng, t, w) if kind == "conforming" else off_by_one(rng, t, w)
        try:
            strict, want = ref_coerce(t, v, w)
            accept = True
        except Reject:
            accept, strict, want = False, True, None
        ctx.count("assignments")
        via = rng.choice(["constructor", "constructor", "assignment", "assignment", "default"])
        if via == "default" and (v is None or "'cfg'" in repr(t)):
            # a None default is "no default"; configuration-valued defaults are cloned per instance (by design), which the
            # identity-based comparison below cannot express: the default route covers scalars, enums, paths and containers
            via = "constructor"
        via_init = via == "constructor"
        raised = None
        stored = None
        try:
            if via == "default":
                # the value is the declared default of the parameter and the parameter is left alone
                from experimaestro import Config, Param

                _DEFAULTS[0] += 1
                name = f"D{_DEFAULTS[0]}"
                dcls = type(name, (Config,), {"__module__": "xvmodels.dyn", "__qualname__": name, "__xpmid__": f"xvmodels.dyn.{name.lower()}", "__annotations__": {"p": Param[to_typing(t)]}, "p": v})
                setattr(dyn_module(), name, dcls)
                ctx.count("values_as_declared_default")
                o = dcls()
            elif via_init:
                o = cls(p=v)
            else:
                o = cls()
                o.p = v
            stored = o.__xpm__.values.get("p", "<<unset>>")
            readback = o.p
        except Exception as e:
            raised = e
        wit = {"type": repr(t), "value": show(v), "via": via}
        desc = {"t": repr(t), "v": show(v), "k": kind}
        if v is None and not (isinstance(t, tuple) and t[0] == "opt"):
            # None for a required parameter: must be rejected (documented: 'Cannot set required attribute to None')
            if raised is None:
                ctx.violation("none-stored-in-required-parameter", f"{wit}", wit)
            ctx.case(desc, nontrivial=depth_of(t) >= 2, max_samples=0)
            continue
        if accept and strict:
            if raised is not None:
                ctx.violation("conforming-value-rejected", f"type {t}: value {show(v)} rejected with {raised!r}", wit)
            elif not same(readback, want) or not same(stored, want):
                ctx.violation("conforming-value-altered", f"type {t}: value {show(v)} reads back {show(readback)}, expected {show(want)}", wit)
            else:
                ctx.count("conforming_accepted")
        if raised is None and not accept:
            # the documented coercions are the only ones: anything else has to be rejected
            ctx.violation("non-conforming-value-accepted", f"type {t}: assignment of {show(v)} was accepted and stored {show(stored)}", wit)
        elif raised is None:
            if not of_type(t, stored, w):
                ctx.violation("ill-typed-value-stored", f"type {t}: assignment of {show(v)} stored {show(stored)}, which is not of the declared type", wit)
        elif not accept:
            ctx.count("ill_typed_rejected")
        ctx.case(desc, nontrivial=depth_of(t) >= 2, sample=wit, max_samples=3)


REQUIRED = {cls: [n for n, p in d["params"].items() if p.required] for cls, d in SCHEMA.items()}


def removal_sites(recipe):
    """(nid, param, nesting kind) for every required kwarg of a node sealed by the root's submission."""
    from xvgen.shadow import Shadow

    root = recipe["root"]
    sh = Shadow()
    for st in recipe["steps"]:
        sh.apply(st)
    unsealed = {n for n, node in sh.nodes.items() if not node.sealed and not node.implicit}
    # nesting kind of each node: how it is first reached from the root
    kind = {root: "root"}
    order = [root]
    while order:
        x = order.pop(0)
        n = sh.nodes[x]
        for pname, v in n.values.items():
            p = SCHEMA[n.cls]["params"][pname]

            def walk(val, k):
                if val is None:
                    return
                if isinstance(val, list):
                    for y in val:
                        walk(y, "list" if k in ("direct", "meta-param") else "nested-container")
                elif isinstance(val, dict) and "$d" in val:
                    for y in val["$d"].values():
                        walk(y, "dict" if k in ("direct", "meta-param") else "nested-container")
                elif isinstance(val, dict) and "$r" in val:
                    r = val["$r"]
                    if r not in kind:
                        kk = k
                        if sh.nodes[r].meta:
                            kk = "meta-flagged"
                        kind[r] = kk
                        order.append(r)

            walk(v, "meta-param" if p.ignored else "direct")
        for q in n.pre:
            if q not in kind:
                kind[q] = "pre-task"
                order.append(q)
    sites = []
    for s in recipe["steps"]:
        if s[0] == "new" and s[1] in unsealed and s[1] in kind:
            for name, _ in s[3]:
                if name in REQUIRED[s[2]]:
                    sites.append((s[1], name, kind[s[1]]))
    return sites, sh


def second_attempt(r2, root, inits, b):
    """History after a rejected submission: a new task object of the same class is built from the *same* parameter
    objects (nothing was repaired) and submitted (the rejected object itself cannot be submitted twice)."""
    bld = build.Builder()
    new = root + "#2"
    for s in r2["steps"]:
        if s[0] in ("new", "set", "meta", "tag", "pre") and s[1] == root:
            bld.step([s[0], new] + list(s[2:]), b)
    bld.step(["submit", new, inits], b)


def part2(ctx, rng, n, normal_every=3):
    from xvengine import engb, planrun

    prof = recipes.Profile(root_classes=["TaskT", "TaskO"], p_optional=0.7, max_nodes=12, p_meta=0.2, p_pre=0.35, p_task_param=0.1, tasks=False)
    for i in range(n):
        rec = recipes.generate(rng, prof)
        sites, sh = removal_sites(rec)
        if not sites:
            continue
        kinds = sorted({k for _, _, k in sites})
        pick = rng.choice(kinds)
        nid, name, kind = rng.choice([x for x in sites if x[2] == pick])
        with_init = rng.random() < 0.1
        r2 = copy.deepcopy(rec)
        if with_init:
            # the required value is missing in an init task passed to submit
            r2["steps"].append(["new", "ni0", "Init", []])
            kind, nid, name = "init-task", "ni0", "k"
        else:
            for s in r2["steps"]:
                if s[0] == "new" and s[1] == nid:
                    s[3] = [[k, v] for k, v in s[3] if k != name]
        root = rec["root"]
        inits = ["ni0"] if with_init else []
        ctx.count("removal_cases")
        ctx.count("removal:" + kind)
        w = {"recipe": r2, "removed": [nid, name], "kind": kind}
        normal = i % normal_every == 0
        try:
            if normal:
                ctx.count("removal_normal_mode")
                with planrun.controlled_experiment(ctx.scratch / f"n{rng.randrange(10**9)}") as xp:
                    b = build.Builder().run(r2)
                    xp._xv_engine.quiesce()  # the coroutines of the inner tasks have created their links
                    before = (len(xp.scheduler.jobs), xp.unfinishedJobs)
                    links_before = sorted(str(p) for p in xp.jobspath.glob("*/*"))
                    raised = None
                    try:
                        build.Builder().step(["submit", root, inits], b)
                    except Exception as e:
                        raised = e
                    xp._xv_engine.quiesce()
                    after = (len(xp.scheduler.jobs), xp.unfinishedJobs)
                    links_after = sorted(str(p) for p in xp.jobspath.glob("*/*"))
                    if raised is None:
                        ctx.violation("submit-accepts-missing-required:" + kind, f"submit accepted a task whose {sh.nodes[nid].cls if nid in sh.nodes else 'Init'} node {nid} ({kind}) lacks required '{name}' (normal mode)", w)
                    if after != before or links_after != links_before:
                        ctx.violation("job-registered-before-rejection:" + kind, f"scheduler registry/unfinished {before} -> {after}, links {len(links_before)} -> {len(links_after)} although node {nid} ({kind}) lacks '{name}' (raised: {raised!r})", w)
                    if raised is not None and after == before:
                        # history: a new task object built from the same (unrepaired) parameter objects is submitted
                        ctx.count("removal_second_attempt")
                        raised2 = None
                        try:
                            second_attempt(r2, root, inits, b)
                        except Exception as e:
                            raised2 = e
                        xp._xv_engine.quiesce()
                        after2 = (len(xp.scheduler.jobs), xp.unfinishedJobs)
                        if raised2 is None or after2 != before:
                            ctx.violation("second-attempt-accepts-missing-required:" + kind, f"the second submission of a task whose node {nid} ({kind}) lacks required '{name}' was accepted / registered (first: {raised!r}, second: {raised2!r}, registry {before} -> {after2}) (normal mode)", w)
            else:
                b = build.Builder().run(r2)
                raised = None
                try:
                    build.Builder().step(["submit", root, inits], b)
                except Exception as e:
                    raised = e
                if raised is None:
                    ctx.violation("submit-accepts-missing-required:" + kind, f"dry-run submit accepted a task whose node {nid} ({kind}) lacks required '{name}'", w)
                else:
                    ctx.count("removal_second_attempt")
                    raised2 = None
                    try:
                        second_attempt(r2, root, inits, b)
                    except Exception as e:
                        raised2 = e
                    if raised2 is None:
                        ctx.violation("second-attempt-accepts-missing-required:" + kind, f"the second dry-run submission of a task whose node {nid} ({kind}) lacks required '{name}' was accepted (first: {raised!r})", w)
        except RecursionError:
            pass
        except Exception as e:
            # the incomplete node was needed to build an inner task: not a case for the root's submission
            ctx.count("removal_unbuildable")
            continue
        ctx.case({"r": r2["steps"], "rm": [nid, name]}, nontrivial=kind != "root", sample={"removed": [nid, name], "kind": kind}, max_samples=2)


def worker(ctx):
    xpctx.quiet()
    n1, n2 = (max(1, x // ctx.nshards) for x in N[ctx.tier])
    with xpctx.stderr_to_devnull(), xpctx.dry_experiment(ctx.scratch / "ws"):
        w = World(ctx.rng)
        part1(ctx, ctx.rng, n1, w)
        part2(ctx, ctx.rng, n2)


def replay(ctx, w):
    print("replay: the witness names the type/value or the recipe and removal; re-run the quick tier with the recorded seed")
