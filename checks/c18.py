"""C18 – a launcher request only matches hosts that satisfy it.

Monitors (all run beside the real launcherfinder code on generated inputs):
  M1 soundness: every non-None `match()` is re-judged by an independent reference matcher
  M2 text == programmatic: random expression trees rendered to text (random whitespace) and
     built through the API from fresh operands; compared field-wise
  M3 order: RequirementUnion.match / LauncherRegistry.find return the first accepted alternative
  M4 operand immutability of & and * (deep snapshot before / after)
"""
import copy
import tempfile
from pathlib import Path

PROPERTY = "C18"
LEVEL = "exploration"
RULE = (
    "seeded random (request, host) pairs and request expression trees over cpu(mem,cores), cuda(mem), "
    "duration, &, *k, |; a case is non-trivial when the request has at least one non-zero resource and the "
    "host has at least one resource within a factor 4 of the request (so accept and reject both occur); "
    "distinct = distinct canonical (request, host) or expression descriptors"
)
ASSUMPTIONS = [
    "reference matcher judges soundness only (a match must be justified), not completeness",
    "terms always carry at least one parameter: cuda()/cpu() crash in the parser and are outside the accepted language",
    "single host per ordering case so scores tie and the first accepted alternative must win",
]
SHARDS = {"quick": 8, "thorough": 16}
MINIMUMS = {
    "quick": {"match_accepts": 5000, "match_rejects": 5000, "parse_compared": 5000, "union_cases": 2000, "find_cases": 300, "and_ops": 20000, "mul_ops": 2000},
    "thorough": {"match_accepts": 200000, "match_rejects": 200000, "parse_compared": 100000, "union_cases": 50000, "find_cases": 3000, "and_ops": 500000, "mul_ops": 50000},
}
N = {"quick": (60000, 10000, 6000, 600), "thorough": (1500000, 200000, 100000, 6000)}

G = 10**9
M = 10**6


# ---------------------------------------------------------------- reference model
def ref_matches(req, host):
    """req: dict(gpus=[mem..], cpu_mem, cpu_cores, duration); host: dict(gpus=[mem..], cpu_mem, cores, max_duration).
    Returns True when the host satisfies the request (necessary condition for a match)."""
    rg = sorted(req["gpus"], reverse=True)
    hg = sorted(host["gpus"], reverse=True)
    if len(hg) < len(rg):
        return False, "not enough GPUs"
    for r, h in zip(rg, hg):  # greedy = existence of an injective assignment
        if h < r:
            return False, "GPU memory"
    if host["cpu_mem"] < req["cpu_mem"]:
        return False, "CPU memory"
    if host["cores"] < req["cpu_cores"]:
        return False, "CPU cores"
    if host["max_duration"] > 0 and req["duration"] > host["max_duration"]:
        return False, "duration"
    return True, ""


def snap(r):
    """Field-wise snapshot of a real HostSimpleRequirement."""
    return {
        "gpus": [(g.memory, g.model, g.min_memory) for g in r.cuda_gpus],
        "cpu": (r.cpu.memory, r.cpu.cores, r.cpu.mem_per_cpu, r.cpu.cpu_per_gpu),
        "duration": r.duration,
    }


def as_ref_req(r):
    return {"gpus": [g.memory for g in r.cuda_gpus], "cpu_mem": r.cpu.memory, "cpu_cores": r.cpu.cores, "duration": r.duration}


# ---------------------------------------------------------------- generators
def gen_mem(rng):
    unit = rng.choice(["G", "G", "M", ""])
    n = rng.choice([1, 2, 4, 8, 12, 16, 24, 32, 48, 64, 70, 128, 512, rng.randint(1, 999)])
    return n, unit


def mem_bytes(n, unit):
    return n * {"G": G, "M": M, "": 1}[unit]


def gen_term(rng):
    k = rng.choice(["cpu", "cpu", "cuda", "cuda", "duration"])
    if k == "cpu":
        parts = []
        which = rng.choice(["mem", "cores", "both", "both_rev"])
        d = {"kind": "cpu"}
        if which in ("mem", "both", "both_rev"):
            d["mem"] = gen_mem(rng)
        if which in ("cores", "both", "both_rev"):
            d["cores"] = rng.choice([1, 2, 4, 8, 16, 32, rng.randint(1, 128)])
        d["order"] = "cm" if which == "both_rev" else "mc"
        return d
    if k == "cuda":
        d = {"kind": "cuda", "mem": gen_mem(rng), "mult": rng.choice([None, None, 1, 2, 3, 4, 8])}
        return d
    return {"kind": "duration", "n": rng.choice([1, 2, 3, 6, 12, 24, 48, rng.randint(1, 500)]), "unit": rng.choice(["h", "hours", "d", "days"])}


def gen_expr(rng):
    """An expression is a list (alternatives) of lists (conjunctions) of terms."""
    nalt = rng.choice([1, 1, 2, 2, 3, 4])
    return [[gen_term(rng) for _ in range(rng.choice([1, 1, 2, 2, 3, 4]))] for _ in range(nalt)]


def ws(rng):
    return rng.choice(["", "", " ", "  ", "\t", " \n "])


def render_term(t, rng):
    w = lambda: ws(rng)
    if t["kind"] == "cpu":
        specs = []
        if "mem" in t:
            specs.append(f"mem{w()}={w()}{t['mem'][0]}{t['mem'][1]}")
        if "cores" in t:
            specs.append(f"cores{w()}={w()}{t['cores']}")
        if t["order"] == "cm":
            specs.reverse()
        return f"cpu{w()}({w()}" + f"{w()},{w()}".join(specs) + f"{w()})"
    if t["kind"] == "cuda":
        s = f"cuda{w()}({w()}mem{w()}={w()}{t['mem'][0]}{t['mem'][1]}{w()})"
        if t["mult"] is not None:
            s += f"{w()}*{w()}{t['mult']}"
        return s
    return f"duration{w()}={w()}{t['n']}{w()}{t['unit']}"


def render(expr, rng):
    return f"{ws(rng)}|{ws(rng)}".join(f"{ws(rng)}&{ws(rng)}".join(render_term(t, rng) for t in alt) for alt in expr) + ws(rng)


def build_term(t, specs):
    """Programmatic construction from FRESH operands."""
    if t["kind"] == "cpu":
        kw = {}
        if "mem" in t:
            kw["mem"] = f"{t['mem'][0]}{t['mem'][1]}"
        if "cores" in t:
            kw["cores"] = t["cores"]
        return specs.cpu(**kw)
    if t["kind"] == "cuda":
        r = specs.cuda_gpu(mem=f"{t['mem'][0]}{t['mem'][1]}")
        if t["mult"] is not None:
            r = r * t["mult"]
        return r
    return specs.duration(f"{t['n']} {t['unit']}")


def ref_term(t):
    """Independent meaning of a term."""
    if t["kind"] == "cpu":
        return {"gpus": [], "cpu_mem": mem_bytes(*t["mem"]) if "mem" in t else 0, "cpu_cores": t.get("cores", 1), "duration": 0}
    if t["kind"] == "cuda":
        return {"gpus": [mem_bytes(*t["mem"])] * (t["mult"] if t["mult"] is not None else 1), "cpu_mem": 0, "cpu_cores": 0, "duration": 0}
    return {"gpus": [], "cpu_mem": 0, "cpu_cores": 0, "duration": t["n"] * (3600 if t["unit"][0] == "h" else 86400)}


def ref_and(terms):
    out = {"gpus": [], "cpu_mem": 0, "cpu_cores": 0, "duration": 0}
    for t in terms:
        r = ref_term(t)
        out["gpus"] = sorted(out["gpus"] + r["gpus"])
        out["cpu_mem"] = max(out["cpu_mem"], r["cpu_mem"])
        out["cpu_cores"] = max(out["cpu_cores"], r["cpu_cores"])
        out["duration"] = max(out["duration"], r["duration"])
    return out


def gen_host(rng, near=None):
    """Host spec as plain data; `near` (a ref request) biases towards boundary cases."""
    def around(v):
        if not v:
            return rng.choice([0, 1, G, 16 * G])
        return max(0, int(v * rng.choice([0.25, 0.5, 0.99, 1, 1, 1.01, 2, 4])) + rng.choice([-1, 0, 0, 1]))

    if near is not None and rng.random() < 0.8:
        ng = len(near["gpus"]) + rng.choice([-1, 0, 0, 0, 1, 2])
        gp = [around(rng.choice(near["gpus"]) if near["gpus"] else 8 * G) for _ in range(max(0, ng))]
        return {
            "gpus": gp,
            "cpu_mem": around(near["cpu_mem"]),
            "cores": max(0, int(around(near["cpu_cores"] or 1))) if near["cpu_cores"] < 10**6 else 0,
            "max_duration": rng.choice([0, 0, around(near["duration"])]),
            "priority": rng.choice([0, 0, 1, 5]),
        }
    return {
        "gpus": [mem_bytes(*gen_mem(rng)) for _ in range(rng.choice([0, 0, 1, 2, 4, 8]))],
        "cpu_mem": mem_bytes(*gen_mem(rng)),
        "cores": rng.choice([0, 1, 2, 4, 8, 16, 32, 64]),
        "max_duration": rng.choice([0, 0, 3600, 86400, 7 * 86400]),
        "priority": rng.choice([0, 0, 1, 5]),
    }


def real_host(h, specs):
    return specs.HostSpecification(
        cuda=[specs.CudaSpecification(m) for m in h["gpus"]],
        cpu=specs.CPUSpecification(h["cpu_mem"], h["cores"]),
        max_duration=h["max_duration"],
        priority=h["priority"],
    )


# ---------------------------------------------------------------- worker
def worker(ctx):
    from experimaestro.launcherfinder import specs
    from experimaestro.launcherfinder.parser import parse
    from experimaestro.launcherfinder.registry import LauncherRegistry
    from experimaestro.launchers.direct import DirectLauncher
    from experimaestro.connectors.local import LocalConnector

    rng = ctx.rng
    n_match, n_parse, n_union, n_find = (max(1, x // ctx.nshards) for x in N[ctx.tier])

    # ---- M1 soundness of match() on (request, host) pairs, M4 on the way
    for _ in range(n_match):
        conj = [gen_term(rng) for _ in range(rng.choice([1, 2, 2, 3, 4]))]
        operands = [build_term(t, specs) for t in conj]
        before = [snap(o) for o in operands]
        req = operands[0]
        for o in operands[1:]:
            req = req & o
            ctx.count("and_ops")
        after = [snap(o) for o in operands]
        if before != after:
            ctx.violation("and-mutates-operand", f"a & b changed an operand: {before} -> {after}", {"kind": "and", "terms": conj})
        want = ref_and(conj)
        got = as_ref_req(req)
        if got != want:
            ctx.violation("and-wrong-result", f"conjunction of {conj} is {got}, expected {want}", {"kind": "and", "terms": conj})
        h = gen_host(rng, near=want)
        host = real_host(h, specs)
        m = req.match(host)
        ok, why = ref_matches(want, h)
        nontrivial = (bool(want["gpus"]) or want["cpu_mem"] > 0 or want["cpu_cores"] > 0 or want["duration"] > 0)
        ctx.case({"k": "match", "req": want, "host": h}, nontrivial=nontrivial, sample={"request": want, "host": h, "matched": m is not None, "reference": ok})
        if m is not None:
            ctx.count("match_accepts")
            if not ok:
                ctx.violation(
                    "unsound-match:" + why.replace(" ", "-"),
                    f"request {want} matched host {h} although the host lacks: {why}",
                    {"kind": "match", "terms": conj, "host": h},
                )
            if m.requirement is not req:
                ctx.violation("match-returns-other-requirement", "match() returned a different requirement", {"kind": "match", "terms": conj, "host": h})
        else:
            ctx.count("match_rejects")
            if ok:
                ctx.count("incomplete_rejects")  # allowed: the property is soundness only

    # ---- M4 multiplication leaves the operand alone and repeats the GPUs
    for _ in range(max(100, n_match // 8)):
        t = gen_term(rng)
        a = build_term(t, specs)
        b = build_term(gen_term(rng), specs)
        base = a & b if rng.random() < 0.5 else a
        k = rng.choice([1, 2, 3, 5])
        s0 = snap(base)
        r = base * k
        ctx.count("mul_ops")
        if snap(base) != s0:
            ctx.violation("mul-mutates-operand", f"x * {k} changed x: {s0} -> {snap(base)}", {"kind": "mul", "term": t, "k": k})
        if sorted(g.memory for g in r.cuda_gpus) != sorted([g[0] for g in s0["gpus"]] * k):
            ctx.violation("mul-wrong-result", f"x * {k}: gpus {[g.memory for g in r.cuda_gpus]} from {s0['gpus']}", {"kind": "mul", "term": t, "k": k})
        # mutating the product must not reach the operand either
        if k > 1 and r.cuda_gpus:
            r.cuda_gpus[0].memory += 1
            r.cpu.memory += 1
            if snap(base) != s0:
                ctx.violation("mul-shares-state", "x * k shares mutable state with x", {"kind": "mul", "term": t, "k": k})

    # ---- M2 parse(text) == programmatic construction
    for _ in range(n_parse):
        expr = gen_expr(rng)
        text = render(expr, rng)
        try:
            parsed = parse(text)
        except Exception as e:
            ctx.violation("parse-rejects-valid-text", f"parse({text!r}) raised {e!r}", {"kind": "parse", "expr": expr, "text": text})
            continue
        built = None
        for alt in expr:
            ops = [build_term(t, specs) for t in alt]
            r = ops[0]
            for o in ops[1:]:
                r = r & o
            built = r if built is None else (built | r)
        built_list = built.requirements if isinstance(built, specs.RequirementUnion) else [built]
        # nested unions (a | b) | c nest: flatten as the documentation intends alternatives
        flat = []

        def flatten(x):
            if isinstance(x, specs.RequirementUnion):
                for y in x.requirements:
                    flatten(y)
            else:
                flat.append(x)

        flatten(built)
        ctx.count("parse_compared")
        want = [ref_and(alt) for alt in expr]
        gp = [as_ref_req(r) for r in parsed]
        gb = [as_ref_req(r) for r in flat]
        ctx.case({"k": "parse", "expr": expr}, nontrivial=sum(len(a) for a in expr) >= 2, sample={"text": text, "meaning": want})
        if gp != want:
            ctx.violation("parse-meaning", f"parse({text!r}) = {gp}, expected {want}", {"kind": "parse", "expr": expr, "text": text})
        if gb != want:
            ctx.violation("api-meaning", f"programmatic construction of {expr} = {gb}, expected {want}", {"kind": "parse", "expr": expr, "text": text})
        if [snap(r) for r in parsed] != [snap(r) for r in flat]:
            ctx.violation("parse-differs-from-api", f"{text!r}: parsed {[snap(r) for r in parsed]} != built {[snap(r) for r in flat]}", {"kind": "parse", "expr": expr, "text": text})

    # ---- M3 order of alternatives: RequirementUnion.match
    for _ in range(n_union):
        expr = gen_expr(rng)
        while len(expr) < 2:
            expr = gen_expr(rng)
        alts = []
        for alt in expr:
            ops = [build_term(t, specs) for t in alt]
            r = ops[0]
            for o in ops[1:]:
                r = r & o
            alts.append(r)
        want = [ref_and(alt) for alt in expr]
        h = gen_host(rng, near=rng.choice(want))
        host = real_host(h, specs)
        union = specs.RequirementUnion(*alts)
        res = union.match(host)
        individual = [a.match(host) is not None for a in alts]
        ctx.count("union_cases")
        ctx.case({"k": "union", "expr": expr, "host": h}, nontrivial=any(individual) and not all(individual), sample={"alternatives": want, "host": h, "accepted": individual})
        if res is None:
            if any(individual):
                ctx.violation("union-misses-alternative", f"union of {want} on {h}: no match although alternatives {individual} match", {"kind": "union", "expr": expr, "host": h})
        else:
            first = individual.index(True) if any(individual) else None
            idx = next((i for i, a in enumerate(alts) if a is res.requirement), None)
            if first is None or idx != first:
                ctx.violation("union-order", f"union returned alternative {idx}, first accepted is {first} ({individual})", {"kind": "union", "expr": expr, "host": h})
            ok, why = ref_matches(as_ref_req(res.requirement), h)
            if not ok:
                ctx.violation("unsound-match:" + why.replace(" ", "-"), f"union matched {as_ref_req(res.requirement)} on {h} lacking {why}", {"kind": "union", "expr": expr, "host": h})

    # ---- M3 order: LauncherRegistry.find (text and objects mixed)
    tmp = Path(tempfile.mkdtemp(prefix="c18", dir=str(ctx.scratch)))
    reg = LauncherRegistry(tmp)
    launcher_for = {}
    for _ in range(n_find):
        expr = gen_expr(rng)
        want = [ref_and(alt) for alt in expr]
        h = gen_host(rng, near=rng.choice(want))
        host = real_host(h, specs)
        calls = []

        def fn(spec, tags):
            calls.append(as_ref_req(spec))
            if spec.match(host):
                l = DirectLauncher(LocalConnector.instance())
                launcher_for[id(l)] = as_ref_req(spec)
                l._verif_keep = spec
                return l
            return None

        reg.find_launcher_fn = fn
        # give the alternatives partly as one text, partly as objects
        cut = rng.randint(0, len(expr))
        args = []
        if cut:
            args.append(render(expr[:cut], rng))
        for alt in expr[cut:]:
            ops = [build_term(t, specs) for t in alt]
            r = ops[0]
            for o in ops[1:]:
                r = r & o
            args.append(r)
        try:
            l = reg.find(*args)
        except Exception as e:
            ctx.violation("find-raises", f"find({args}) raised {e!r}", {"kind": "find", "expr": expr, "host": h, "cut": cut})
            continue
        ctx.count("find_cases")
        accepted = [ref for ref in want if real_match_ref(ref, h, specs)]
        ctx.case({"k": "find", "expr": expr, "host": h, "cut": cut}, nontrivial=len(expr) > 1)
        if calls != want[: len(calls)]:
            ctx.violation("find-order", f"find tried {calls}, given order {want}", {"kind": "find", "expr": expr, "host": h, "cut": cut})
        if l is None:
            if len(calls) != len(want):
                ctx.violation("find-stops-early", f"find gave up after {len(calls)} of {len(want)} alternatives", {"kind": "find", "expr": expr, "host": h, "cut": cut})
        else:
            got = launcher_for.get(id(l))
            ok, why = ref_matches(got, h)
            if not ok:
                ctx.violation("unsound-match:" + why.replace(" ", "-"), f"find returned a launcher for {got} on host {h} lacking {why}", {"kind": "find", "expr": expr, "host": h, "cut": cut})
            if calls and got != calls[-1]:
                ctx.violation("find-order", "find returned a launcher that is not the last tried", {"kind": "find", "expr": expr, "host": h, "cut": cut})
    import shutil

    shutil.rmtree(tmp, ignore_errors=True)


def real_match_ref(ref, h, specs):
    return ref_matches(ref, h)[0]


def replay(ctx, w):
    """Re-execute one recorded witness."""
    from experimaestro.launcherfinder import specs
    from experimaestro.launcherfinder.parser import parse

    if w["kind"] in ("and", "match"):
        conj = w["terms"]
        operands = [build_term(t, specs) for t in conj]
        before = [snap(o) for o in operands]
        req = operands[0]
        for o in operands[1:]:
            req = req & o
        if before != [snap(o) for o in operands]:
            ctx.violation("and-mutates-operand", "a & b changed an operand", w)
        if "host" in w:
            want = ref_and(conj)
            m = req.match(real_host(w["host"], specs))
            ok, why = ref_matches(want, w["host"])
            if m is not None and not ok:
                ctx.violation("unsound-match:" + why.replace(" ", "-"), f"{want} matched {w['host']}", w)
    elif w["kind"] == "parse":
        parsed = parse(w["text"])
        want = [ref_and(alt) for alt in w["expr"]]
        if [as_ref_req(r) for r in parsed] != want:
            ctx.violation("parse-meaning", f"{w['text']!r}", w)
    else:
        print("replay of kind", w["kind"], "re-runs the quick tier with the recorded seed")
