"""C04 – no job is launched before everything it depends on has succeeded (Engine B)"""
from xvgen.plans import PlanProfile

from . import engb_common as E

PROPERTY = "C04"
LEVEL = "exploration"
RULE = (
    "generated plans covering every way of embedding an upstream task in the parameters (direct, list, dict, nested configuration, task output in value / list / dict / nested, pre-task, pre-task of a nested configuration, init task, explicit dependency) x seeded schedules; the oracle uses the plan's own edges, never job.dependencies; non-trivial = >= 2 jobs and >= 1 edge; distinct = distinct (plan, decision trace)"
)
ASSUMPTIONS = [
    "job processes are simulated (launch = SimProcessBuilder.start, exit = the driver selecting the process's waiter); the task runner itself is covered by C10",
    "other processes sharing a token directory are modelled by a driver-serialised foreign agent (a second real CounterToken object): its sections run atomically, as they do under the inter-process lock",
    "asyncio's own FIFO order inside the loop is never perturbed; helper-thread completions, cross-thread posts, process exits and filesystem notifications are delivered in seeded orders",
    "ground truth of the upstream relation is the plan (which task objects the harness embedded where)",
]
SHARDS = E.SHARDS
TIMEOUT = E.TIMEOUT
MINIMUMS = {"quick": {"feature:cleaned": 40, "distinct_plan_trace": 3000, "launch_events": 8000, "feature:how:direct": 20, "feature:how:lst": 20, "feature:how:dct": 20, "feature:how:holder_t": 20, "feature:how:holder_ts": 20, "feature:how:art": 20, "feature:how:arts": 20, "feature:how:adct": 20, "feature:how:holder_a": 20, "feature:how:pre_t": 20, "feature:how:pre_art": 20, "feature:how:pre_nested_t": 20, "feature:how:init_art": 20, "feature:how:explicit": 20}, "thorough": {"distinct_plan_trace": 100000, "launch_events": 250000, "feature:how:init_art": 800, "feature:how:pre_nested_t": 800, "feature:how:adct": 800}}
PROFILES = [PlanProfile(max_jobs=8, p_edge=0.5), PlanProfile(max_jobs=6, p_edge=0.6, tokens=1), PlanProfile(max_jobs=6, p_fail=0.2), PlanProfile(max_jobs=5, multi_run=0.6, p_fail=0.1), PlanProfile(max_jobs=5, multi_run=1.0, p_abort=0.2, p_clean=0.9, p_edge=0.6)]
worker = E.make_worker(PROPERTY, PROFILES, {"quick": 1280, "thorough": 40000}, {"quick": 5, "thorough": 6}, nontrivial=lambda plan: len(plan["jobs"]) >= 2 and any(j["deps"] for j in plan["jobs"]))
replay = E.make_replay(PROPERTY)
