"""C02 – the identifier ignores everything documented as outside the signature.

Metamorphic monitor: for a generated graph g and a *neutral* edit e applied at a random node and depth,
every node keeps its raw and full identifier (so the root and every ancestor of the edited node do).
A negative control applies one *relevant* edit and expects a change (proves the monitor is not vacuous;
counted in the evidence, never a verdict for C02).
"""
import copy
import random
from pathlib import Path

from xvgen import build, idlib, recipes, xpctx
from xvgen.schema import ENUMS, SCHEMA, F

PROPERTY = "C02"
LEVEL = "exploration"
RULE = (
    "seeded random graphs x neutral edits {explicit default, explicit None, Meta/Option value, Path value, content / "
    "insertion / removal of a meta-flagged sub-configuration as value, list element or dict value, tags, token and explicit "
    "dependencies, launcher+workspace+run mode, class extended with defaulted/Meta/optional/generated parameters}, single "
    "and in pairs; non-trivial = the edit really changed the recipe and the graph has >= 2 nodes; distinct = distinct "
    "(recipe, edit list) descriptors"
)
ASSUMPTIONS = [
    "neutral edits are those the documentation lists; in-place mutation of containers is not an edit",
    "the class edit is realised by subclasses with the same __xpmid__ (xvmodels.zoo2), which is how the code sees 'a class with one more parameter'",
]
SHARDS = {"quick": 16, "thorough": 16}
HASHSEEDS = ["0", "7"]
MINIMUMS = {
    "quick": {"distinct_nontrivial": 1500, "pairs_compared": 2500, "edit:class-edit": 200, "edit:class-edit-values": 200, "edit:meta-content": 80, "edit:meta-insert": 80, "edit:explicit-default": 200, "edit:ignored-param": 200, "edit:env": 60, "controls_changed": 200},
    "thorough": {"distinct_nontrivial": 50000, "pairs_compared": 90000, "edit:class-edit": 8000, "edit:meta-content": 2500, "edit:meta-insert": 2500, "edit:explicit-default": 8000, "edit:ignored-param": 8000, "edit:env": 1500, "controls_changed": 8000},
}
N = {"quick": 700, "thorough": 24000}
TIMEOUT = {"quick": 2400, "thorough": 14400}


def new_steps(recipe):
    return [s for s in recipe["steps"] if s[0] == "new"]


def fresh_id(recipe, tag):
    n = sum(1 for s in recipe["steps"] if s[0] == "new")
    return f"e{n}{tag}"


def insert_before(recipe, nid, steps):
    """Insert steps just before the creation of node nid."""
    for i, s in enumerate(recipe["steps"]):
        if s[0] == "new" and s[1] == nid:
            recipe["steps"][i:i] = steps
            return
    raise KeyError(nid)


def different(rng, p, old):
    """A value of the parameter's type different from `old`."""
    t = p.base
    for _ in range(20):
        if t == "int":
            v = rng.randint(-99, 99)
        elif t == "str":
            v = rng.choice(["zzz", "other", "", "a.b", "x:y"])
        elif t == "float":
            v = F(rng.choice([0.75, -2.5, 10.0, 3.0]))
        elif t == "bool":
            v = not bool(old)
        elif t == "path":
            v = {"$p": rng.choice(["/elsewhere/x", "/tmp/y.bin", "rel/z"])}
        elif isinstance(t, tuple) and t[0] == "enum":
            v = {"$e": [t[1], rng.choice(ENUMS[t[1]])]}
        else:
            return None
        if v != old:
            return v
    return None


# ---------------------------------------------------------------- neutral edits: recipe -> recipe or None
def e_explicit_default(recipe, sh, rng):
    cands = []
    for s in new_steps(recipe):
        given = {k for k, _ in s[3]}
        for name, p in SCHEMA[s[2]]["params"].items():
            if name not in given and p.default is not None and not p.generator and not p.constant:
                cands.append((s, name, p))
    if not cands:
        return None
    s, name, p = rng.choice(cands)
    r = copy.deepcopy(recipe)
    d = copy.deepcopy(p.default)
    if isinstance(d, dict) and "$new" in d:
        nid = fresh_id(r, "d")
        insert_before(r, s[1], [["new", nid, d["$new"][0], [[k, v] for k, v in d["$new"][1].items()]]])
        d = {"$r": nid}
    for t in r["steps"]:
        if t[0] == "new" and t[1] == s[1]:
            t[3].insert(rng.randint(0, len(t[3])), [name, d])
    return r


def e_explicit_none(recipe, sh, rng):
    cands = []
    for s in new_steps(recipe):
        given = {k for k, _ in s[3]}
        for name, p in SCHEMA[s[2]]["params"].items():
            if name not in given and p.optional and p.default is None:
                cands.append((s, name))
    if not cands:
        return None
    s, name = rng.choice(cands)
    r = copy.deepcopy(recipe)
    for t in r["steps"]:
        if t[0] == "new" and t[1] == s[1]:
            t[3].append([name, None])
    return r


def e_ignored_param(recipe, sh, rng):
    """Change a Meta / Option / Path parameter (scalar-valued)."""
    cands = []
    for s in new_steps(recipe):
        for name, p in SCHEMA[s[2]]["params"].items():
            if p.ignored and not p.generator and (not isinstance(p.base, tuple) or p.base[0] == "enum"):
                cands.append((s, name, p))
    if not cands:
        return None
    s, name, p = rng.choice(cands)
    r = copy.deepcopy(recipe)
    for t in r["steps"]:
        if t[0] == "new" and t[1] == s[1]:
            old = next((v for k, v in t[3] if k == name), p.default)
            v = different(rng, p, old)
            if v is None:
                return None
            t[3] = [[k, x] for k, x in t[3] if k != name] + [[name, v]]
    return r


def e_ignored_cfg_param(recipe, sh, rng):
    """Change / set / unset a configuration held by a Meta parameter (mchild, mitems)."""
    cands = [s for s in new_steps(recipe) if s[2] == "Node" and not ({"mchild", "mitems"} & {k for k, _ in s[3]})]
    if not cands:
        return None
    s = rng.choice(cands)
    r = copy.deepcopy(recipe)
    nid = fresh_id(r, "m")
    insert_before(r, s[1], [["new", nid, "Leaf", [["i", rng.randint(100, 200)]]]])
    for t in r["steps"]:
        if t[0] == "new" and t[1] == s[1]:
            which = rng.choice(["mchild", "mitems"])
            t[3] = [[k, x] for k, x in t[3] if k != which] + [[which, {"$r": nid} if which == "mchild" else [{"$r": nid}]]]
    return r


def meta_true_nodes(recipe):
    return [s[1] for s in recipe["steps"] if s[0] == "meta" and s[2] is True]


def e_meta_content(recipe, sh, rng):
    """Change the content of a sub-configuration flagged meta (wherever it is used)."""
    metas = meta_true_nodes(recipe)
    if not metas:
        return None
    nid = rng.choice(metas)
    cls = sh.nodes[nid].cls
    cands = [(n, p) for n, p in SCHEMA[cls]["params"].items() if not p.generator and not p.constant and (not isinstance(p.base, tuple) or p.base[0] == "enum")]
    if not cands:
        return None
    name, p = rng.choice(cands)
    r = copy.deepcopy(recipe)
    for t in r["steps"]:
        if t[0] == "new" and t[1] == nid:
            old = next((v for k, v in t[3] if k == name), p.default)
            v = different(rng, p, old)
            if v is None:
                return None
            t[3] = [[k, x] for k, x in t[3] if k != name] + [[name, v]]
    r.setdefault("_own_id_changes", []).append(nid)  # the meta node's own identifier legitimately changes
    return r


def container_sites(recipe):
    """(step, kwarg index, path into the value) of every list / dict of configurations given explicitly."""
    sites = []

    def walk(t, v, s, ki, path):
        if isinstance(t, tuple):
            if t[0] == "opt":
                walk(t[1], v, s, ki, path)
            elif t[0] == "list" and isinstance(v, list):
                if isinstance(t[1], tuple) and t[1][0] == "cfg" and not SCHEMA[t[1][1]]["task"]:
                    sites.append((s[1], ki, path, "list", t[1][1]))
                for i, x in enumerate(v):
                    walk(t[1], x, s, ki, path + [i])
            elif t[0] == "dict" and isinstance(v, dict) and "$d" in v:
                if isinstance(t[1], tuple) and t[1][0] == "cfg" and not SCHEMA[t[1][1]]["task"]:
                    sites.append((s[1], ki, path, "dict", t[1][1]))
                for k, x in v["$d"].items():
                    walk(t[1], x, s, ki, path + [k])

    for s in new_steps(recipe):
        for ki, (name, v) in enumerate(s[3]):
            p = SCHEMA[s[2]]["params"][name]
            if not p.ignored:
                walk(p.type, v, s, ki, [])
    return sites


def get_at(v, path):
    for k in path:
        v = v["$d"][k] if isinstance(v, dict) else v[k]
    return v


def e_meta_insert(recipe, sh, rng):
    """Add a meta-flagged configuration as list element or dict value of a signature-relevant parameter."""
    sites = container_sites(recipe)
    if not sites:
        return None
    owner, ki, path, kind, cls = rng.choice(sites)
    r = copy.deepcopy(recipe)
    nid = fresh_id(r, "x")
    kwargs = [["i", 5]] if cls in ("Leaf", "LeafB") else ([["v", 5]] if cls in ("Artifact", "Rec") else [["x", 5]])
    insert_before(r, owner, [["new", nid, cls, kwargs], ["meta", nid, True]])
    for t in r["steps"]:
        if t[0] == "new" and t[1] == owner:
            c = get_at(t[3][ki][1], path)
            if kind == "list":
                c.insert(rng.randint(0, len(c)), {"$r": nid})
            else:
                key = rng.choice([k for k in ["m1", "m2", "zzz", "0", "aa"] if k not in c["$d"]])
                c["$d"][key] = {"$r": nid}
    return r


def e_meta_remove(recipe, sh, rng):
    """Remove a meta-flagged element from a list / dict."""
    metas = set(meta_true_nodes(recipe))
    sites = []
    for owner, ki, path, kind, cls in container_sites(recipe):
        for s in new_steps(recipe):
            if s[1] == owner:
                c = get_at(s[3][ki][1], path)
                items = list(enumerate(c)) if kind == "list" else list(c["$d"].items())
                for k, x in items:
                    # pre-tasks attached below a meta node still reach the full identifier: not a neutral removal
                    if isinstance(x, dict) and x.get("$r") in metas and not any(sh.nodes[m].pre for m in sh.reachable(x["$r"])):
                        sites.append((owner, ki, path, kind, k))
    if not sites:
        return None
    owner, ki, path, kind, k = rng.choice(sites)
    r = copy.deepcopy(recipe)
    for t in r["steps"]:
        if t[0] == "new" and t[1] == owner:
            c = get_at(t[3][ki][1], path)
            if kind == "list":
                del c[k]
            else:
                del c["$d"][k]
    return r


def e_tags(recipe, sh, rng):
    r = copy.deepcopy(recipe)
    had = [s for s in r["steps"] if s[0] == "tag"]
    if had and rng.random() < 0.5:
        r["steps"] = [s for s in r["steps"] if s[0] != "tag"]
        return r
    s = rng.choice(new_steps(r))
    i = r["steps"].index(s)
    r["steps"].insert(i + 1, ["tag", s[1], rng.choice(["model", "run", "T"]), rng.choice(["v1", 3, 0.25])])
    return r


def e_cfgdefault_ignored(recipe, sh, rng):
    """A configuration-typed parameter explicitly set to (its default with another Meta / Path value)."""
    cands = [s for s in new_steps(recipe) if s[2] == "Node" and "dflt" not in {k for k, _ in s[3]}]
    if not cands:
        return None
    s = rng.choice(cands)
    r = copy.deepcopy(recipe)
    nid = fresh_id(r, "c")
    extra = rng.choice([["m", 5], ["o", "other"], ["pp", {"$p": "/some/where"}], ["p", {"$p": "/x"}]])
    insert_before(r, s[1], [["new", nid, "Leaf", [["i", 7], extra]]])
    for t in r["steps"]:
        if t[0] == "new" and t[1] == s[1]:
            t[3].append(["dflt", {"$r": nid}])
    return r


def equal_modulo_ignored(sh, cls, kwargs, nid):
    """True when node nid equals the pristine default cls(**kwargs) on every non-ignored parameter."""
    from xvref.sig import RefEncoder

    ref = RefEncoder(sh)
    n = sh.nodes[nid]
    if n.cls != cls:
        return False, False
    strict = True
    modulo = True
    for pn, pp in SCHEMA[cls]["params"].items():
        want = sh.coerce(pp.type, kwargs[pn]) if pn in kwargs else (pp.default if pp.default is not None else None)
        same = ref.values_equal(want, n.values.get(pn))
        if not same:
            strict = False
            if not pp.ignored:
                modulo = False
    return strict, modulo


def classify(recipe, edited, changed):
    """Mechanism of a neutral-edit violation, decided on the witness.

    known mechanism: some changed node holds, in a parameter whose declared default is a configuration,
    a value that equals that default except for ignored (Meta / Option / Path) parameters: the code compares
    with the default through Config.__eq__, which also compares ignored parameters."""
    try:
        for rec in (recipe, edited):
            if not (isinstance(rec, dict) and "steps" in rec):
                continue
            sh, _ = idlib.shadow_of(rec)
            for nid in changed:
                if nid not in sh.nodes:
                    continue
                n = sh.nodes[nid]
                for pn, pp in SCHEMA[n.cls]["params"].items():
                    d = pp.default
                    if isinstance(d, dict) and "$new" in d:
                        v = n.values.get(pn)
                        if isinstance(v, dict) and "$r" in v:
                            strict, modulo = equal_modulo_ignored(sh, d["$new"][0], d["$new"][1], v["$r"])
                            if modulo and not strict:
                                return "cfg-default-equal-modulo-ignored"
    except Exception:
        pass
    return None


EDITS = {
    "cfgdefault-ignored": e_cfgdefault_ignored,
    "explicit-default": e_explicit_default,
    "explicit-none": e_explicit_none,
    "ignored-param": e_ignored_param,
    "ignored-cfg-param": e_ignored_cfg_param,
    "meta-content": e_meta_content,
    "meta-insert": e_meta_insert,
    "meta-remove": e_meta_remove,
    "tags": e_tags,
}


def relevant_edit(recipe, sh, rng):
    """Negative control: change a signature-relevant scalar of the root."""
    root = recipe["root"]
    cls = sh.nodes[root].cls
    cands = [(n, p) for n, p in SCHEMA[cls]["params"].items() if not p.ignored and not p.generator and not p.constant and p.base in ("int", "str")]
    if not cands or sh.nodes[root].meta:
        return None
    name, p = rng.choice(cands)
    r = copy.deepcopy(recipe)
    for t in r["steps"]:
        if t[0] == "new" and t[1] == root:
            old = next((v for k, v in t[3] if k == name), p.default)
            v = rng.choice([424242, 171717]) if p.base == "int" else rng.choice(["control-A", "control-B"])
            if v == old:
                return None
            t[3] = [[k, x] for k, x in t[3] if k != name] + [[name, v]]
    return r


def ids_of(recipe, module="xvmodels.zoo", finish=None):
    b = build.Builder(module).run(recipe)
    if finish:
        finish(b)
    return b, build.all_ids(b)


def compare(ctx, recipe, base_ids, edited, ids2, names, skip=()):
    ctx.count("pairs_compared")
    changed = [nid for nid, pair in base_ids.items() if nid not in skip and nid in ids2 and ids2[nid] != pair]
    for nid, pair in base_ids.items():
        if nid in skip:
            continue
        if nid in ids2 and ids2[nid] != pair:
            known = classify(recipe, edited, changed)
            ctx.violation(
                known or "neutral-edit-changes-id:" + "+".join(names),
                f"node {nid}: {pair[0][:12]}/{pair[1][:12]} becomes {ids2[nid][0][:12]}/{ids2[nid][1][:12]} after neutral edit(s) {names}",
                {"recipe": recipe, "edited": edited, "edits": names, "node": nid},
            )
            return False
    return True


def explore(ctx, recipe, rng):
    from experimaestro.tokens import ProcessCounterToken

    sh, ref = idlib.shadow_of(recipe)
    root = recipe["root"]
    is_task = recipe["kind"] == "task"
    try:
        b, base = ids_of(recipe)
    except RecursionError:
        return
    for name in EDITS:
        k = rng.choice([1, 1, 2]) if name != "tags" else 1
        names = [name] + [rng.choice(list(EDITS)) for _ in range(k - 1)]
        r = recipe
        applied = []
        for nm in names:
            shx, _ = idlib.shadow_of(r)
            r2 = EDITS[nm](r, shx, rng)
            if r2 is not None:
                r = r2
                applied.append(nm)
        if not applied:
            continue
        for nm in applied:
            ctx.count("edit:" + nm)
        try:
            _, ids2 = ids_of(r)
        except RecursionError:
            continue
        except Exception as e:
            ctx.violation("neutral-edit-rejected:" + "+".join(applied), f"edited recipe raised {e!r}", {"recipe": recipe, "edited": r, "edits": applied})
            continue
        compare(ctx, recipe, base, r, ids2, applied, skip=r.get("_own_id_changes", ()))
        ctx.case({"r": recipe["steps"], "e": applied, "x": r["steps"]}, nontrivial=len(sh.nodes) >= 2 and r != recipe, sample={"edits": applied, "steps": recipe["steps"][:6]}, max_samples=2)

    # class edit: the same recipe with every class extended by new defaulted / Meta / optional / generated parameters
    try:
        _, ids2 = ids_of(recipe, "xvmodels.zoo2")
        ctx.count("edit:class-edit")
        compare(ctx, recipe, base, {"module": "xvmodels.zoo2"}, ids2, ["class-edit"])
        ctx.case({"r": recipe["steps"], "e": "class-edit"}, nontrivial=len(sh.nodes) >= 2)
    except RecursionError:
        pass

    # class edit + values: the added ignored parameters (a plain Meta, and Meta / Option declared together with a second
    # annotation) are also given non-default values right after each node is created.  Nodes of the classes that serve as
    # configuration-typed defaults are left alone: changing an ignored parameter there is known finding
    # cfg-default-equal-modulo-ignored, which is exercised on its own by the edit 'cfgdefault-ignored'.
    steps2 = []
    nset = 0
    for st in recipe["steps"]:
        steps2.append(st)
        if st[0] == "new" and st[2] not in ("Leaf", "LeafB", "GenLeaf"):
            steps2 += [["set", st[1], "zz_m", "changed"], ["set", st[1], "zz_am", 9], ["set", st[1], "zz_ao", "p"]]
            nset += 1
    if nset:
        r3 = {"steps": steps2, "root": recipe["root"], "kind": recipe["kind"]}
        try:
            _, ids3 = ids_of(r3, "xvmodels.zoo2")
            ctx.count("edit:class-edit-values")
            compare(ctx, recipe, base, {"module": "xvmodels.zoo2", "set": ["zz_m", "zz_am", "zz_ao"]}, ids3, ["class-edit-values"])
        except RecursionError:
            pass

    # dependencies, launcher, workspace, run mode (tasks only)
    if is_task:
        rs = {"steps": recipe["steps"] + [["submit", root, []]], "root": root, "kind": "task"}
        _, ids_sub = ids_of(rs)

        def with_deps(b):
            pass

        # explicit + token dependencies added before submit
        b2 = build.Builder().run(recipe)
        tok = ProcessCounterToken(3)
        b2.real[root].add_dependencies(tok.dependency(rng.randint(1, 3)))
        others = [t for t in b2.outputs]
        if others:
            o = b2.real[rng.choice(others)]
            b2.real[root].add_dependencies(o.__xpm__.dependency())
        b2.real[root].submit()
        ctx.count("edit:dependencies")
        compare(ctx, rs, ids_sub, {"deps": True}, build.all_ids(b2, [n for n in ids_sub if n in b2.real]), ["dependencies"])
        ctx.case({"r": recipe["steps"], "e": "deps"}, nontrivial=True)

        if rng.random() < 0.5:
            # other workspace, launcher and run mode
            from experimaestro.connectors.local import LocalConnector
            from experimaestro.launchers.direct import DirectLauncher
            from experimaestro.scheduler.workspace import RunMode

            wd = ctx.scratch / f"ws-env-{rng.randint(0, 10**9)}"
            launcher = DirectLauncher(LocalConnector(wd / "connector"))
            launcher.setenv("XV_ANY", "1")
            from experimaestro import experiment

            xp = experiment(wd, "otherxp", run_mode=RunMode.GENERATE_ONLY, launcher=launcher)
            xp.__enter__()
            try:
                xp.setenv("XV_WS", "1")
                b3 = build.Builder().run(rs)
                ids3 = build.all_ids(b3, [n for n in ids_sub if n in b3.real])
                relpath = str(b3.real[root].__xpm__.job.relpath)
            finally:
                xp.__exit__(RuntimeError, None, None)
                import shutil

                shutil.rmtree(wd, ignore_errors=True)
            ctx.count("edit:env")
            compare(ctx, rs, ids_sub, {"env": "generate-only, other workspace and launcher"}, ids3, ["launcher-workspace-runmode"])
            ctx.case({"r": recipe["steps"], "e": "env"}, nontrivial=True)

    # negative control
    r = relevant_edit(recipe, sh, rng)
    if r is not None:
        try:
            _, ids2 = ids_of(r)
            if ids2[root] != base[root]:
                ctx.count("controls_changed")
            else:
                ctx.count("controls_unchanged")
        except RecursionError:
            pass


def generated_in_default(ctx, rng, n):
    """Directed: a configuration-typed parameter left at its default, where the default's class has a generated parameter
    that is neither a path nor Meta.  Generated values are outside the signature: the identifier must not move when the
    configuration is sealed (which is when the value is generated)."""
    from xvmodels import zoo
    from experimaestro.xpmutils import DirectoryContext

    for _ in range(n):
        x = rng.randint(0, 99)
        o = zoo.OwnerGI(x=x)
        before = o.__xpm__.identifier.all.hex()
        o.__xpm__.seal(DirectoryContext(Path("/xvseal")))
        o.__xpm__._raw_identifier = None
        o.__xpm__._full_identifier = None
        after = o.__xpm__.identifier.all.hex()
        ctx.count("generated_in_default_cases")
        if before != after:
            ctx.violation("cfg-default-unequal-after-generation", f"OwnerGI(x={x}): identifier {before[:12]} before sealing, {after[:12]} once sealed: the sub-configuration left at its default no longer equals the default after its generated parameter was filled, and is hashed", {"class": "OwnerGI", "x": x})
        ctx.case({"gid": x}, nontrivial=True, sample={"x": x, "before": before[:12], "after": after[:12]}, max_samples=1)


def worker(ctx):
    xpctx.quiet()
    generated_in_default(ctx, ctx.rng, 3)
    n = max(1, N[ctx.tier] // ctx.nshards)
    with xpctx.stderr_to_devnull(), xpctx.dry_experiment(ctx.scratch / "ws"):
        metaheavy = recipes.Profile(p_meta=0.5, root_classes=["Node", "Node", "Rec", "Holder", "TaskT", "TaskO", "Gen"])
        for i in range(n):
            rec = recipes.generate(ctx.rng, metaheavy if i % 2 else None)
            explore(ctx, rec, ctx.rng)


def replay(ctx, w):
    xpctx.quiet()
    with xpctx.stderr_to_devnull(), xpctx.dry_experiment(ctx.scratch / "ws"):
        rec = w["recipe"]
        _, base = ids_of(rec)
        ed = w.get("edited")
        if isinstance(ed, dict) and "steps" in ed:
            _, ids2 = ids_of(ed)
            compare(ctx, rec, base, ed, ids2, w["edits"])
        elif isinstance(ed, dict) and ed.get("module"):
            _, ids2 = ids_of(rec, ed["module"])
            compare(ctx, rec, base, ed, ids2, w["edits"])
        else:
            explore(ctx, rec, random.Random(ctx.seed))
